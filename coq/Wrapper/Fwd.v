(** Shapes of the forwarding wrappers (C layer: src/IPhreeqcLib.cpp, Fortran binding:
    src/IPhreeqc_interface_F.cpp), the documented behaviour they must have, and the boolean
    obligations [wrapper_ok] / [fwrapper_ok] that the regenerated tables (Gen/Gen_C13.v) must satisfy.
    A generic semantics of a shape ([exec_c]) links the boolean to behaviour ([capi_forwards]). *)
From Coq Require Import List String Bool ZArith.
Import ListNotations.
Local Open Scope string_scope.

Inductive argx := AParam (p : string) | ANeqZero (p : string) | AOther (t : string).
Inductive resx := RDirect | RCastInt | ROkAfter | RVoid | RBool01
                | RSwitch (cases : list (string * string)) (passthrough : bool) | ROther (t : string).
Inductive badx := BNone | BEmpty | BMsg (m : string) | BZero | BCode (c : string) | BPrint (m : string) | BOther (t : string).
Record cwrap := mkW { w_name : string; w_callee : string; w_args : list argx; w_res : resx; w_bad : badx }.

Inductive fargx := FDerefId | FDeref (p : string) | FDerefM1 (p : string) | FParam (p : string) | FAddr (p : string) | FOther (t : string).
Inductive fresx := FRDirect | FRVoid | FRPad (dest len : string) | FRMinusHeading | FRValue (convs : list string) | FROther (t : string).
Record fwrap := mkF { f_name : string; f_callee : string; f_args : list fargx; f_res : fresx }.

Definition mem (s : string) (l : list string) : bool := existsb (String.eqb s) l.

(** ---- documented behaviour (IPhreeqc.h / IPhreeqc_interface.F90 documentation) ---- *)
Definition nl : string := String (Ascii.ascii_of_nat 10) EmptyString.
Definition count0 := ["GetDumpStringLineCount"; "GetLogStringLineCount"; "GetOutputStringLineCount"; "GetSelectedOutputStringLineCount"].
Definition msg_getters := ["GetComponent"; "GetDumpStringLine"; "GetErrorStringLine"; "GetLogStringLine"; "GetOutputStringLine";
  "GetSelectedOutputStringLine"; "GetWarningStringLine"; "GetErrorString"; "GetWarningString"].
Definition empty_getters := ["GetDumpFileName"; "GetDumpString"; "GetErrorFileName"; "GetLogFileName"; "GetLogString"; "GetOutputFileName";
  "GetOutputString"; "GetSelectedOutputFileName"; "GetSelectedOutputString"].
Definition printers := ["OutputAccumulatedLines"; "OutputErrorString"; "OutputWarningString"].
Definition registry_fns := ["CreateIPhreeqc"; "DestroyIPhreeqc"; "GetVersionString"].
Definition callbacks := ["SetBasicCallback"; "SetBasicFortranCallback"].

Definition doc_bad (name : string) : badx :=
  if mem name registry_fns then BNone
  else if mem name count0 then BZero
  else if mem name msg_getters then BMsg (name ++ ": Invalid instance id." ++ nl)
  else if mem name empty_getters then BEmpty
  else if mem name printers then BPrint (name ++ ": Invalid instance id." ++ nl)
  else BCode "IPQ_BADINSTANCE".

Definition starts (p s : string) : bool := String.prefix p s.
Fixpoint ends (suf s : string) : bool :=
  if String.eqb suf s then true else match s with EmptyString => false | String _ t => ends suf t end.
Definition is_switch_setter (name : string) : bool := starts "Set" name && ends "On" name.

Definition badx_eqb (a b : badx) : bool :=
  match a, b with
  | BNone, BNone | BEmpty, BEmpty | BZero, BZero => true
  | BMsg x, BMsg y | BCode x, BCode y | BPrint x, BPrint y => String.eqb x y
  | _, _ => false
  end.

(** VR_x is translated to IPQ_x with the same x (ipq_of_vr is the identity on the integer values) *)
Definition case_ok (c : string * string) : bool :=
  let (a, b) := c in
  starts "VR_" a && starts "IPQ_" b && String.eqb (substring 3 (String.length a) a) (substring 4 (String.length b) b).

Definition res_ok (name : string) (r : resx) : bool :=
  match r with
  | ROther _ => false
  | RSwitch cases _ => forallb case_ok cases && negb (Nat.eqb (List.length cases) 0)
  | RBool01 => starts "Get" name && ends "On" name
  | _ => true
  end.

Definition arg_ok (name : string) (a : argx) : bool :=
  match a with
  | AParam _ => negb (is_switch_setter name) || String.eqb name "SetCurrentSelectedOutputUserNumber"
  | ANeqZero _ => is_switch_setter name          (* int -> bool exactly as value != 0 *)
  | AOther _ => false
  end.

Definition callee_ok (w : cwrap) : bool :=
  if mem (w_name w) registry_fns then
    String.eqb (w_callee w) ("IPhreeqcLib::" ++ w_name w) || String.eqb (w_callee w) ("IPhreeqc::" ++ w_name w)
  else String.eqb (w_callee w) (w_name w).

Definition wrapper_ok (w : cwrap) : bool :=
  if mem (w_name w) callbacks then String.eqb (w_callee w) (w_name w) && badx_eqb (w_bad w) (doc_bad (w_name w))
  else callee_ok w && forallb (arg_ok (w_name w)) (w_args w) && res_ok (w_name w) (w_res w) && badx_eqb (w_bad w) (doc_bad (w_name w)).

(** parameters whose 1-based Fortran index is shifted to the 0-based C index; everything else is passed as is *)
Definition shifted (fname : string) : list string :=
  if mem fname ["GetComponentF"; "GetDumpStringLineF"; "GetErrorStringLineF"; "GetLogStringLineF"; "GetOutputStringLineF";
                "GetSelectedOutputStringLineF"; "GetWarningStringLineF"; "GetNthSelectedOutputUserNumberF"] then ["n"]
  else if String.eqb fname "GetSelectedOutputValueF" then ["col"]      (* row is NOT shifted: row 0 = headings *)
  else [].

Definition farg_ok (fname : string) (a : fargx) : bool :=
  match a with
  | FDerefId => true
  | FDeref p => negb (mem p (shifted fname))
  | FDerefM1 p => mem p (shifted fname)
  | FParam _ => true
  | FAddr _ => String.eqb fname "GetSelectedOutputValueF"
  | FOther _ => false
  end.

Definition fres_ok (fname : string) (r : fresx) : bool :=
  match r with
  | FROther _ => false
  | FRMinusHeading => String.eqb fname "GetSelectedOutputRowCountF"
  | FRValue convs => String.eqb fname "GetSelectedOutputValueF" && mem "TT_LONG" convs && mem "TT_DOUBLE" convs && mem "TT_STRING" convs
                     && mem "TT_EMPTY" convs && mem "TT_ERROR" convs
  | FRPad _ _ => true
  | FRDirect => negb (String.eqb fname "GetSelectedOutputRowCountF") && negb (String.eqb fname "GetSelectedOutputValueF")
  | FRVoid => true
  end.

Definition shifted_all_present (w : fwrap) : bool :=
  forallb (fun p => existsb (fun a => match a with FDerefM1 q => String.eqb p q | _ => false end) (f_args w)) (shifted (f_name w)).

Definition first_is_id (w : fwrap) : bool :=
  match f_args w with
  | FDerefId :: _ => true
  | [] => mem (f_name w) ["CreateIPhreeqcF"; "GetVersionStringF"]
  | _ => false
  end.

Definition fwrapper_ok (w : fwrap) : bool :=
  String.eqb (f_name w) (f_callee w ++ "F") && first_is_id w && forallb (farg_ok (f_name w)) (f_args w)
  && shifted_all_present w && fres_ok (f_name w) (f_res w).

Definition covers (protos : list string) (names : list string) : bool :=
  forallb (fun p => mem p names) protos && forallb (fun n => mem n protos) names.

(** ---- generic semantics of a C wrapper shape ---- *)
Section Sem.
Variable inst : Type.                      (* a live IPhreeqc object *)
Variable val : Type.                       (* argument / result values *)
Variable method : string -> list val -> inst -> inst * val.    (* the C++ method of that name *)
Variable neq_zero : val -> val.            (* int -> bool (value != 0) *)
Variable conv : resx -> val -> val.        (* result handling of the shape *)
Variable bad_val : badx -> val.            (* the invalid-instance result as a value *)

Definition eval_arg (env : string -> val) (a : argx) : val :=
  match a with AParam p => env p | ANeqZero p => neq_zero (env p) | AOther _ => env "" end.

(** running wrapper [w] on a registry [reg] (id -> object) *)
Definition exec_c (w : cwrap) (reg : Z -> option inst) (id : Z) (env : string -> val) : (Z -> option inst) * val :=
  match reg id with
  | None => (reg, bad_val (w_bad w))
  | Some i => let (i', r) := method (w_callee w) (map (eval_arg env) (w_args w)) i in
              ((fun k => if Z.eqb k id then Some i' else reg k), conv (w_res w) r)
  end.

(** A wrapper that satisfies the boolean obligation: (1) with a not-live id it changes no instance and
    returns the documented invalid-instance result; (2) with a live id it calls exactly the same-named
    method of that object, with the caller's arguments in order (switch setters: value != 0), leaves
    every other instance untouched, and returns the method's result through the shape's conversion. *)
Theorem capi_forwards : forall w, wrapper_ok w = true -> mem (w_name w) callbacks = false -> mem (w_name w) registry_fns = false ->
  forall reg id env,
  (reg id = None -> exec_c w reg id env = (reg, bad_val (doc_bad (w_name w)))) /\
  (forall i, reg id = Some i ->
     let (i', r) := method (w_name w) (map (eval_arg env) (w_args w)) i in
     snd (exec_c w reg id env) = conv (w_res w) r /\
     fst (exec_c w reg id env) id = Some i' /\
     (forall k, k <> id -> fst (exec_c w reg id env) k = reg k)).
Proof.
  intros w Hok Hcb Hrg reg id env.
  unfold wrapper_ok in Hok. rewrite Hcb in Hok.
  apply andb_prop in Hok; destruct Hok as [Hok Hbad].
  apply andb_prop in Hok; destruct Hok as [Hok Hres].
  apply andb_prop in Hok; destruct Hok as [Hcal Hargs].
  unfold callee_ok in Hcal. rewrite Hrg in Hcal. apply String.eqb_eq in Hcal.
  assert (Hb : w_bad w = doc_bad (w_name w)).
  { destruct (w_bad w), (doc_bad (w_name w)); simpl in Hbad; try discriminate; try reflexivity;
      apply String.eqb_eq in Hbad; subst; reflexivity. }
  split.
  - intros Hnone. unfold exec_c. rewrite Hnone, Hb. reflexivity.
  - intros i Hsome. unfold exec_c. rewrite Hsome, Hcal.
    destruct (method (w_name w) (map (eval_arg env) (w_args w)) i) as [i' r]. simpl.
    split; [reflexivity|]. split.
    + rewrite Z.eqb_refl. reflexivity.
    + intros k Hk. destruct (Z.eqb_spec k id); [contradiction|reflexivity].
Qed.
End Sem.
