(** Proofs about the CSelectedOutput model: invariant for every operation sequence, refinement to
    the row-history specification, out-of-range behaviour of Get.  (C05) *)
From Coq Require Import List ZArith String Bool Lia Arith.
From IPV.Wrapper Require Import SelOut SelOutSpec.
Import ListNotations.
Local Open Scope list_scope.

(** Representation invariant *)
Definition Inv (s : so) : Prop :=
  NoDup (heads s) /\
  List.length (cols s) = List.length (heads s) /\
  Forall (fun c => List.length c = nrow s \/ List.length c = S (nrow s)) (cols s).

(** * Auxiliary list lemmas *)

Lemma nth_repeat_same : forall (A : Type) (a : A) m n, nth n (repeat a m) a = a.
Proof.
  intros A a m. induction m as [|m IHm]; intros [|n]; simpl; auto.
Qed.

Lemma nth_map_lt : forall (A B : Type) (f : A -> B) (l : list A) d d' j,
  j < List.length l -> nth j (map f l) d' = f (nth j l d).
Proof.
  intros A B f l d d' j Hj.
  rewrite (nth_indep (map f l) d' (f d)) by (rewrite map_length; exact Hj).
  apply map_nth.
Qed.

Lemma NoDup_snoc : forall (A : Type) (l : list A) k, NoDup l -> ~ In k l -> NoDup (l ++ [k]).
Proof.
  intros A l k. induction l as [|a l IHl]; simpl; intros Hnd Hni.
  - constructor; [intros [] | constructor].
  - inversion Hnd as [|x y Hna Hnd']; subst.
    constructor.
    + rewrite in_app_iff. simpl. intros [Hin | [Heq | []]].
      * exact (Hna Hin).
      * apply Hni. left. symmetry. exact Heq.
    + apply IHl; [exact Hnd' | intros Hin; apply Hni; right; exact Hin].
Qed.

Lemma Forall_nth_lt : forall (A : Type) (P : A -> Prop) (l : list A) d j,
  Forall P l -> j < List.length l -> P (nth j l d).
Proof.
  intros A P l d j HF Hj.
  rewrite Forall_forall in HF. apply HF. apply nth_In. exact Hj.
Qed.

(** ** upd_nth *)

Lemma length_upd_nth : forall (A : Type) (f : A -> A) l n,
  List.length (upd_nth n f l) = List.length l.
Proof.
  intros A f l. induction l as [|h t IHt]; intros [|n]; simpl; auto.
Qed.

Lemma nth_upd_nth_eq : forall (A : Type) (f : A -> A) d l n,
  n < List.length l -> nth n (upd_nth n f l) d = f (nth n l d).
Proof.
  intros A f d l. induction l as [|h t IHt]; intros [|n] Hn; simpl in *; try lia.
  - reflexivity.
  - apply IHt. lia.
Qed.

Lemma nth_upd_nth_neq : forall (A : Type) (f : A -> A) d l n m,
  m <> n -> nth m (upd_nth n f l) d = nth m l d.
Proof.
  intros A f d l. induction l as [|h t IHt]; intros [|n] [|m] Hne; simpl;
    try reflexivity; try lia.
  apply IHt. lia.
Qed.

Lemma Forall_upd_nth : forall (A : Type) (P : A -> Prop) (f : A -> A) l n,
  (forall x, P x -> P (f x)) -> Forall P l -> Forall P (upd_nth n f l).
Proof.
  intros A P f l. induction l as [|h t IHt]; intros n Hf Hl; destruct n as [|n]; simpl; auto;
    inversion Hl as [|x y Hh Ht]; subst; constructor; auto.
Qed.

(** ** set_nth *)

Lemma length_set_nth : forall (A : Type) (x : A) l n,
  List.length (set_nth n x l) = List.length l.
Proof.
  intros A x l. induction l as [|h t IHt]; intros [|n]; simpl; auto.
Qed.

Lemma nth_set_nth_eq : forall (A : Type) (x d : A) l n,
  n < List.length l -> nth n (set_nth n x l) d = x.
Proof.
  intros A x d l. induction l as [|h t IHt]; intros [|n] Hn; simpl in *; try lia.
  - reflexivity.
  - apply IHt. lia.
Qed.

Lemma nth_set_nth_neq : forall (A : Type) (x d : A) l n m,
  m <> n -> nth m (set_nth n x l) d = nth m l d.
Proof.
  intros A x d l. induction l as [|h t IHt]; intros [|n] [|m] Hne; simpl;
    try reflexivity; try lia.
  apply IHt. lia.
Qed.

(** ** push_col *)

Lemma push_col_length : forall nr v c,
  List.length c = nr \/ List.length c = S nr -> List.length (push_col nr v c) = S nr.
Proof.
  intros nr v c Hlen. unfold push_col.
  destruct (Nat.eqb_spec (List.length c) nr) as [E|E].
  - rewrite app_length. simpl. lia.
  - rewrite length_set_nth. lia.
Qed.

Lemma push_col_nth_last : forall nr v c d,
  List.length c = nr \/ List.length c = S nr -> nth nr (push_col nr v c) d = v.
Proof.
  intros nr v c d Hlen. unfold push_col.
  destruct (Nat.eqb_spec (List.length c) nr) as [E|E].
  - rewrite app_nth2 by lia. replace (nr - List.length c) with 0 by lia. reflexivity.
  - apply nth_set_nth_eq. lia.
Qed.

Lemma push_col_nth_lt : forall nr v c d i,
  List.length c = nr \/ List.length c = S nr -> i < nr ->
  nth i (push_col nr v c) d = nth i c d.
Proof.
  intros nr v c d i Hlen Hi. unfold push_col.
  destruct (Nat.eqb_spec (List.length c) nr) as [E|E].
  - apply app_nth1. lia.
  - apply nth_set_nth_neq. lia.
Qed.

(** ** pad *)

Lemma pad_length : forall n c, List.length c <= n -> List.length (pad n c) = n.
Proof.
  intros n c Hle. unfold pad. rewrite app_length, repeat_length. lia.
Qed.

Lemma pad_nth : forall n c i, nth i (pad n c) CEmpty = nth i c CEmpty.
Proof.
  intros n c i. unfold pad.
  destruct (lt_dec i (List.length c)) as [Hlt|Hge].
  - apply app_nth1. exact Hlt.
  - rewrite app_nth2 by lia. rewrite nth_repeat_same.
    symmetry. apply nth_overflow. lia.
Qed.

(** ** index_of / mem *)

Lemma index_of_None : forall k l, index_of k l = None -> ~ In k l.
Proof.
  intros k l. induction l as [|a l IHl]; simpl; intros Hio.
  - intros [].
  - destruct (String.eqb_spec k a) as [E|E]; [discriminate|].
    destruct (index_of k l) as [n|] eqn:Ei; simpl in Hio; [discriminate|].
    intros [Ha|Hin]; [apply E; symmetry; exact Ha | exact (IHl eq_refl Hin)].
Qed.

Lemma index_of_Some : forall k l j, index_of k l = Some j ->
  j < List.length l /\ nth j l EmptyString = k.
Proof.
  intros k l. induction l as [|a l IHl]; simpl; intros j Hio.
  - discriminate.
  - destruct (String.eqb_spec k a) as [E|E].
    + inversion Hio; subst. split; [lia | reflexivity].
    + destruct (index_of k l) as [n|] eqn:Ei; simpl in Hio; [|discriminate].
      inversion Hio; subst.
      destruct (IHl n eq_refl) as [Hlt Hnth].
      split; [lia | exact Hnth].
Qed.

Lemma mem_index_of : forall k l,
  mem k l = match index_of k l with Some _ => true | None => false end.
Proof.
  intros k l. unfold mem. induction l as [|a l IHl]; simpl.
  - reflexivity.
  - destruct (String.eqb k a); simpl; [reflexivity|].
    rewrite IHl. destruct (index_of k l); reflexivity.
Qed.

(** ** last_pushed *)

Lemma last_pushed_snoc : forall k row k' v,
  last_pushed k (row ++ [(k', v)]) = if String.eqb k k' then Some v else last_pushed k row.
Proof.
  intros k row k' v. induction row as [|[k0 v0] rest IHr]; simpl.
  - reflexivity.
  - rewrite IHr. destruct (String.eqb k k'); [reflexivity|].
    reflexivity.
Qed.

Definition keys_in (hs : list string) (row : list (string * cell)) : Prop :=
  Forall (fun p => In (fst p) hs) row.

Lemma last_pushed_notin : forall hs k row,
  keys_in hs row -> ~ In k hs -> last_pushed k row = None.
Proof.
  intros hs k row Hk Hni. induction Hk as [|[k0 v0] rest Hin Hrest IHr]; simpl.
  - reflexivity.
  - rewrite IHr. simpl in Hin.
    destruct (String.eqb_spec k k0) as [E|E]; [|reflexivity].
    subst. contradiction.
Qed.

Lemma keys_in_mono : forall hs hs' row,
  (forall x, In x hs -> In x hs') -> keys_in hs row -> keys_in hs' row.
Proof.
  intros hs hs' row Hsub Hk. unfold keys_in in *.
  apply Forall_impl with (2 := Hk). intros p Hp. apply Hsub. exact Hp.
Qed.

(** * Invariant preservation *)

Lemma Inv_init : Inv so_init.
Proof.
  unfold Inv, so_init; simpl. split; [constructor | split; [reflexivity | constructor]].
Qed.

Lemma heads_nil_cols_nil : forall s, Inv s -> heads s = [] -> cols s = [].
Proof.
  intros s (_ & Hlen & _) Hh. rewrite Hh in Hlen. simpl in Hlen.
  destruct (cols s); [reflexivity | discriminate].
Qed.

Lemma end_row_nil : forall s, heads s = [] -> end_row s = s.
Proof. intros s Hh. unfold end_row. rewrite Hh. reflexivity. Qed.

Lemma end_row_cons : forall s, heads s <> [] ->
  end_row s = mkSO (S (nrow s)) (heads s) (map (pad (S (nrow s))) (cols s)).
Proof.
  intros s Hh. unfold end_row. destruct (heads s) as [|h t]; [contradiction|reflexivity].
Qed.

Lemma push_back_Inv : forall s k v, Inv s -> Inv (push_back s k v).
Proof.
  intros s k v (Hnd & Hlen & Hcols). unfold push_back.
  destruct (index_of k (heads s)) as [j|] eqn:Ei; unfold Inv; simpl.
  - split; [exact Hnd|]. split.
    + rewrite length_upd_nth. exact Hlen.
    + apply Forall_upd_nth; [|exact Hcols].
      intros c Hc. right. apply push_col_length. exact Hc.
  - split; [|split].
    + apply NoDup_snoc; [exact Hnd | apply index_of_None; exact Ei].
    + rewrite !app_length. simpl. lia.
    + apply Forall_app. split; [exact Hcols|].
      constructor; [|constructor].
      right. rewrite app_length, pad_length by (simpl; lia). simpl. lia.
Qed.

Lemma end_row_Inv : forall s, Inv s -> Inv (end_row s).
Proof.
  intros s HI. destruct (list_eq_dec string_dec (heads s) []) as [Hh|Hh].
  - rewrite end_row_nil by exact Hh. exact HI.
  - rewrite end_row_cons by exact Hh.
    destruct HI as (Hnd & Hlen & Hcols). unfold Inv; simpl.
    split; [exact Hnd|]. split.
    + rewrite map_length. exact Hlen.
    + apply Forall_map. apply Forall_impl with (2 := Hcols).
      intros c Hc. left. apply pad_length. lia.
Qed.

Lemma step_Inv : forall s o, Inv s -> Inv (step s o).
Proof.
  intros s [k v| |] HI; simpl.
  - apply push_back_Inv. exact HI.
  - apply end_row_Inv. exact HI.
  - apply Inv_init.
Qed.

Lemma end_row_full : forall s, Inv s ->
  Forall (fun c => List.length c = nrow (end_row s)) (cols (end_row s)).
Proof.
  intros s HI. destruct (list_eq_dec string_dec (heads s) []) as [Hh|Hh].
  - rewrite end_row_nil by exact Hh. rewrite (heads_nil_cols_nil s HI Hh). constructor.
  - rewrite end_row_cons by exact Hh. simpl.
    destruct HI as (_ & _ & Hcols).
    apply Forall_map. apply Forall_impl with (2 := Hcols).
    intros c Hc. apply pad_length. lia.
Qed.

(** * Simulation relation between the column-major model and the row-history table *)

(** Column [c] (for heading [k]) agrees with the row history. *)
Definition ColOK (nr : nat) (c : list cell) (k : string)
    (closed : list (list (string * cell))) (opn : list (string * cell)) : Prop :=
  (forall i, i < nr -> nth i c CEmpty = cell_or_empty (last_pushed k (nth i closed []))) /\
  ((List.length c = S nr /\ last_pushed k opn = Some (nth nr c CEmpty)) \/
   (List.length c = nr /\ last_pushed k opn = None)).

Definition R (s : so) (t : tbl) : Prop :=
  heads s = t_heads t /\
  nrow s = List.length (t_closed t) /\
  Forall (keys_in (heads s)) (t_closed t) /\
  keys_in (heads s) (t_open t) /\
  forall j, j < List.length (heads s) ->
    ColOK (nrow s) (nth j (cols s) []) (nth j (heads s) EmptyString) (t_closed t) (t_open t).

Lemma R_init : R so_init t_init.
Proof.
  unfold R, so_init, t_init; simpl.
  split; [reflexivity|]. split; [reflexivity|]. split; [constructor|]. split; [constructor|].
  intros j Hj. lia.
Qed.

Lemma ColOK_len : forall nr c k closed opn,
  ColOK nr c k closed opn -> List.length c = nr \/ List.length c = S nr.
Proof.
  intros nr c k closed opn [_ [[Hl _]|[Hl _]]]; [right|left]; exact Hl.
Qed.

Lemma ColOK_push_same : forall nr c k closed opn v,
  ColOK nr c k closed opn -> ColOK nr (push_col nr v c) k closed (opn ++ [(k, v)]).
Proof.
  intros nr c k closed opn v HC.
  pose proof (ColOK_len _ _ _ _ _ HC) as Hlen.
  destruct HC as [Hcl Hop].
  split.
  - intros i Hi. rewrite push_col_nth_lt by assumption. apply Hcl. exact Hi.
  - left. split.
    + apply push_col_length. exact Hlen.
    + rewrite last_pushed_snoc. rewrite String.eqb_refl.
      rewrite push_col_nth_last by exact Hlen. reflexivity.
Qed.

Lemma ColOK_push_other : forall nr c k k' closed opn v,
  k' <> k -> ColOK nr c k' closed opn -> ColOK nr c k' closed (opn ++ [(k, v)]).
Proof.
  intros nr c k k' closed opn v Hne [Hcl Hop].
  split; [exact Hcl|].
  rewrite last_pushed_snoc.
  destruct (String.eqb_spec k' k) as [E|E]; [contradiction|].
  exact Hop.
Qed.

Lemma ColOK_new : forall nr k closed opn v,
  nr = List.length closed ->
  (forall row, In row closed -> last_pushed k row = None) ->
  ColOK nr (pad nr [] ++ [v]) k closed (opn ++ [(k, v)]).
Proof.
  intros nr k closed opn v Hnr Hnone.
  assert (Hpl : List.length (pad nr []) = nr) by (apply pad_length; simpl; lia).
  split.
  - intros i Hi. rewrite app_nth1 by lia. rewrite pad_nth.
    rewrite (Hnone (nth i closed [])) by (apply nth_In; lia).
    destruct i; reflexivity.
  - left. split.
    + rewrite app_length. simpl. lia.
    + rewrite last_pushed_snoc. rewrite String.eqb_refl.
      rewrite app_nth2 by lia. replace (nr - List.length (pad nr [])) with 0 by lia.
      reflexivity.
Qed.

Lemma ColOK_end_row : forall nr c k closed opn,
  nr = List.length closed ->
  ColOK nr c k closed opn -> ColOK (S nr) (pad (S nr) c) k (closed ++ [opn]) [].
Proof.
  intros nr c k closed opn Hnr HC.
  pose proof (ColOK_len _ _ _ _ _ HC) as Hlen.
  destruct HC as [Hcl Hop].
  split.
  - intros i Hi. rewrite pad_nth.
    destruct (lt_dec i nr) as [Hlt|Hge].
    + rewrite app_nth1 by lia. apply Hcl. exact Hlt.
    + assert (Hi' : i = nr) by lia. subst i.
      rewrite app_nth2 by lia. replace (nr - List.length closed) with 0 by lia. simpl.
      destruct Hop as [[Hl Hlp]|[Hl Hlp]]; rewrite Hlp; simpl.
      * reflexivity.
      * apply nth_overflow. lia.
  - right. split.
    + apply pad_length. lia.
    + reflexivity.
Qed.

Lemma push_back_R : forall s t k v, Inv s -> R s t -> R (push_back s k v) (spec_step t (OPush k v)).
Proof.
  intros s t k v (Hnd & Hlen & Hcols) (Hh & Hn & Hcl & Hop & Hcol).
  unfold push_back, spec_step. rewrite mem_index_of. rewrite <- Hh.
  destruct (index_of k (heads s)) as [j|] eqn:Ei; unfold R; simpl.
  - destruct (index_of_Some _ _ _ Ei) as [Hj Hjk].
    split; [reflexivity|]. split; [exact Hn|]. split; [exact Hcl|]. split.
    + unfold keys_in. apply Forall_app. split; [exact Hop|].
      constructor; [|constructor]. simpl. rewrite <- Hjk. apply nth_In. exact Hj.
    + intros j' Hj'. destruct (Nat.eq_dec j' j) as [E|E].
      * subst j'. rewrite nth_upd_nth_eq by lia. rewrite Hjk.
        apply ColOK_push_same. rewrite <- Hjk. apply Hcol. exact Hj.
      * rewrite nth_upd_nth_neq by exact E.
        apply ColOK_push_other; [|apply Hcol; exact Hj'].
        intros Heq. apply E.
        rewrite (NoDup_nth (heads s) EmptyString) in Hnd.
        apply Hnd; [exact Hj' | exact Hj | rewrite Heq, Hjk; reflexivity].
  - pose proof (index_of_None _ _ Ei) as Hni.
    assert (Hsub : forall x, In x (heads s) -> In x (heads s ++ [k])).
    { intros x Hx. apply in_or_app. left. exact Hx. }
    split; [reflexivity|]. split; [exact Hn|]. split; [|split].
    + apply Forall_impl with (2 := Hcl). intros row Hrow.
      apply keys_in_mono with (1 := Hsub). exact Hrow.
    + unfold keys_in. apply Forall_app. split.
      * apply keys_in_mono with (1 := Hsub). exact Hop.
      * constructor; [|constructor]. simpl. apply in_or_app. right. left. reflexivity.
    + intros j' Hj'. rewrite app_length in Hj'. simpl in Hj'.
      destruct (lt_dec j' (List.length (heads s))) as [Hlt|Hge].
      * rewrite !app_nth1 by lia.
        apply ColOK_push_other; [|apply Hcol; exact Hlt].
        intros Heq. apply Hni. rewrite <- Heq. apply nth_In. exact Hlt.
      * assert (Hj'' : j' = List.length (heads s)) by lia. subst j'.
        rewrite (app_nth2 (cols s)) by lia. rewrite (app_nth2 (heads s)) by lia.
        rewrite Hlen. rewrite Nat.sub_diag. simpl nth.
        apply ColOK_new; [exact Hn|].
        intros row Hrow. apply last_pushed_notin with (hs := heads s); [|exact Hni].
        rewrite Forall_forall in Hcl. apply Hcl. exact Hrow.
Qed.

Lemma end_row_R : forall s t, Inv s -> R s t -> R (end_row s) (spec_step t OEndRow).
Proof.
  intros s t HI HR.
  destruct (list_eq_dec string_dec (heads s) []) as [Hnil|Hcons].
  - rewrite end_row_nil by exact Hnil.
    destruct HR as (Hh & Hrest). unfold spec_step. rewrite <- Hh, Hnil.
    split; [exact Hh | exact Hrest].
  - rewrite end_row_cons by exact Hcons.
    destruct HI as (Hnd & Hlen & Hcols). destruct HR as (Hh & Hn & Hcl & Hop & Hcol).
    assert (Hspec : spec_step t OEndRow = mkT (t_heads t) (t_closed t ++ [t_open t]) []).
    { unfold spec_step. rewrite <- Hh. destruct (heads s); [contradiction|reflexivity]. }
    rewrite Hspec. unfold R; simpl.
    split; [exact Hh|]. split; [rewrite app_length; simpl; lia|]. split; [|split].
    + apply Forall_app. split; [exact Hcl|]. constructor; [exact Hop|constructor].
    + constructor.
    + intros j Hj. rewrite (nth_map_lt _ _ (pad (S (nrow s))) (cols s) [] []) by lia.
      apply ColOK_end_row; [exact Hn|]. apply Hcol. exact Hj.
Qed.

Lemma step_R : forall s t o, Inv s -> R s t -> R (step s o) (spec_step t o).
Proof.
  intros s t [k v| |] HI HR.
  - apply push_back_R; assumption.
  - apply end_row_R; assumption.
  - simpl. apply R_init.
Qed.

Lemma run_gen : forall ops s t, Inv s -> R s t ->
  Inv (fold_left step ops s) /\ R (fold_left step ops s) (fold_left spec_step ops t).
Proof.
  intros ops. induction ops as [|o ops IH]; intros s t HI HR; simpl.
  - split; assumption.
  - apply IH; [apply step_Inv; exact HI | apply step_R; assumption].
Qed.

Lemma run_Inv_R : forall ops, Inv (run ops) /\ R (run ops) (spec_run ops).
Proof.
  intros ops. unfold run, spec_run. apply run_gen; [apply Inv_init | apply R_init].
Qed.

(** * Main theorems *)

Theorem so_invariant : forall ops, Inv (run ops).
Proof. intros ops. apply run_Inv_R. Qed.
Print Assumptions so_invariant.

Theorem so_endrow_full : forall ops, let s := end_row (run ops) in
  Forall (fun c => List.length c = nrow s) (cols s).
Proof.
  intros ops s. subst s. apply end_row_full. apply so_invariant.
Qed.
Print Assumptions so_endrow_full.

Theorem so_heads_refine : forall ops, heads (run ops) = t_heads (spec_run ops).
Proof.
  intros ops. destruct (run_Inv_R ops) as [_ (Hh & _)]. exact Hh.
Qed.
Print Assumptions so_heads_refine.

Theorem so_nrow_refine  : forall ops, nrow (run ops) = List.length (t_closed (spec_run ops)).
Proof.
  intros ops. destruct (run_Inv_R ops) as [_ (_ & Hn & _)]. exact Hn.
Qed.
Print Assumptions so_nrow_refine.

Lemma row_count_nonempty : forall s c, c < List.length (heads s) ->
  row_count s = (Z.of_nat (nrow s) + 1)%Z.
Proof.
  intros s c Hc. unfold row_count. destruct (heads s) as [|h t]; simpl in *; [lia|reflexivity].
Qed.

Lemma get_refines : forall s t (r c : nat), Inv s -> R s t ->
  1 <= r <= nrow s -> c < List.length (heads s) ->
  get s (Z.of_nat r) (Z.of_nat c) = (VR_OK, spec_get t r c).
Proof.
  intros s t r c HI (Hh & Hn & Hcl & Hop & Hcol) Hr Hc.
  unfold get. rewrite (row_count_nonempty s c Hc). unfold col_count.
  destruct (Z.ltb_spec (Z.of_nat r) 0) as [H1|H1]; [lia|].
  destruct (Z.leb_spec (Z.of_nat (nrow s) + 1) (Z.of_nat r)) as [H2|H2]; [lia|].
  destruct (Z.ltb_spec (Z.of_nat c) 0) as [H3|H3]; [lia|].
  destruct (Z.leb_spec (Z.of_nat (List.length (heads s))) (Z.of_nat c)) as [H4|H4]; [lia|].
  destruct (Z.eqb_spec (Z.of_nat r) 0) as [H5|H5]; [lia|].
  simpl. rewrite !Nat2Z.id. f_equal.
  unfold spec_get. rewrite <- Hh.
  destruct (Hcol c Hc) as [Hcells _]. apply Hcells. lia.
Qed.

Theorem so_refines_table : forall ops (r c : nat),
  1 <= r <= nrow (run ops) -> c < List.length (heads (run ops)) ->
  get (run ops) (Z.of_nat r) (Z.of_nat c) = (VR_OK, spec_get (spec_run ops) r c).
Proof.
  intros ops r c Hr Hc. destruct (run_Inv_R ops) as [HI HR].
  apply get_refines; assumption.
Qed.
Print Assumptions so_refines_table.

Theorem so_heading_row : forall ops (c : nat), c < List.length (heads (run ops)) ->
  get (run ops) 0%Z (Z.of_nat c) = (VR_OK, CStr (nth c (t_heads (spec_run ops)) EmptyString)).
Proof.
  intros ops c Hc. rewrite <- so_heads_refine.
  unfold get. rewrite (row_count_nonempty _ c Hc). unfold col_count.
  destruct (Z.leb_spec (Z.of_nat (nrow (run ops)) + 1) 0) as [H2|H2]; [lia|].
  destruct (Z.ltb_spec (Z.of_nat c) 0) as [H3|H3]; [lia|].
  destruct (Z.leb_spec (Z.of_nat (List.length (heads (run ops)))) (Z.of_nat c)) as [H4|H4]; [lia|].
  simpl. rewrite Nat2Z.id. reflexivity.
Qed.
Print Assumptions so_heading_row.

Theorem so_get_out_of_range : forall s (r c : Z),
  ((r < 0 \/ row_count s <= r)%Z -> get s r c = (VR_INVALIDROW, CErr VR_INVALIDROW)) /\
  ((0 <= r < row_count s)%Z -> (c < 0 \/ col_count s <= c)%Z -> get s r c = (VR_INVALIDCOL, CErr VR_INVALIDCOL)).
Proof.
  intros s r c. unfold get. split.
  - intros Hr.
    destruct (Z.ltb_spec r 0) as [H1|H1]; [reflexivity|].
    destruct (Z.leb_spec (row_count s) r) as [H2|H2]; [reflexivity|].
    lia.
  - intros Hr Hc.
    destruct (Z.ltb_spec r 0) as [H1|H1]; [lia|].
    destruct (Z.leb_spec (row_count s) r) as [H2|H2]; [lia|].
    destruct (Z.ltb_spec c 0) as [H3|H3]; [reflexivity|].
    destruct (Z.leb_spec (col_count s) c) as [H4|H4]; [reflexivity|].
    lia.
Qed.
Print Assumptions so_get_out_of_range.

Theorem so_rowcount_spec : forall ops,
  row_count (run ops) = match t_heads (spec_run ops) with [] => 0%Z | _ => (Z.of_nat (List.length (t_closed (spec_run ops))) + 1)%Z end.
Proof.
  intros ops. unfold row_count. rewrite <- so_heads_refine, <- so_nrow_refine. reflexivity.
Qed.
Print Assumptions so_rowcount_spec.

Theorem so_rows_have_colcount_cells : forall ops j, j < List.length (heads (end_row (run ops))) ->
  List.length (nth j (cols (end_row (run ops))) []) = nrow (end_row (run ops)).
Proof.
  intros ops j Hj.
  pose proof (end_row_Inv _ (so_invariant ops)) as (_ & Hlen & _).
  pose proof (end_row_full _ (so_invariant ops)) as Hfull.
  apply (Forall_nth_lt _ _ _ [] j Hfull). lia.
Qed.
Print Assumptions so_rows_have_colcount_cells.

(** * Positional alignment of text rows and table rows (C05 "columns in the same order").
    A text row lists its values in punch order under the heading line; the table stores each value under its name.
    If a finished row punched pairwise distinct names that are a PREFIX of the heading list, in heading order, then the
    k-th value of the row is the content of column k.  A row that skips a heading in the middle breaks this
    ([skipped_value_misaligns]). The correspondence checks the hypothesis on every recorded row. *)
Definition aligned (hs : list string) (row : list (string * cell)) : Prop :=
  NoDup (map fst row) /\ map fst row = firstn (List.length row) hs.

Lemma last_pushed_absent : forall k row, ~ In k (map fst row) -> last_pushed k row = None.
Proof.
  intros k row. induction row as [|[k' v] rest IH]; intros Hn; simpl; [reflexivity|].
  rewrite IH by (intros Hin; apply Hn; right; exact Hin).
  destruct (String.eqb_spec k k') as [E|E]; [|reflexivity].
  exfalso. apply Hn. left. symmetry. exact E.
Qed.

Lemma last_pushed_nodup_nth : forall row k d, NoDup (map fst row) -> k < List.length row ->
  last_pushed (fst (nth k row d)) row = Some (snd (nth k row d)).
Proof.
  induction row as [|[k' v] rest IH]; intros k d Hnd Hk; simpl in Hk; [lia|].
  inversion Hnd as [|x l Hnotin Hnd' Heq]; subst.
  destruct k as [|k]; simpl.
  - rewrite (last_pushed_absent k' rest Hnotin). rewrite String.eqb_refl. reflexivity.
  - rewrite (IH k d Hnd' ltac:(lia)). reflexivity.
Qed.

Theorem aligned_row_positional : forall t r k d,
  aligned (t_heads t) (nth (r - 1) (t_closed t) []) -> k < List.length (nth (r - 1) (t_closed t) []) ->
  spec_get t r k = snd (nth k (nth (r - 1) (t_closed t) []) d).
Proof.
  intros t r k d [Hnd Hpre] Hk. unfold spec_get.
  set (row := nth (r - 1) (t_closed t) []) in *.
  assert (Hname : nth k (t_heads t) EmptyString = fst (nth k row d)).
  { assert (Hk' : k < List.length (map fst row)) by (rewrite map_length; exact Hk).
    rewrite <- (map_nth fst row d k).
    rewrite (nth_indep (map fst row) (fst d) EmptyString Hk').
    rewrite Hpre. clear -Hk. revert k Hk. generalize (List.length row) as n. generalize (t_heads t) as hs.
    induction hs as [|h hs IH]; intros n k Hk; destruct n as [|n]; simpl; try lia.
    - destruct k; reflexivity.
    - destruct k as [|k]; [reflexivity|]. apply IH. lia. }
  rewrite Hname. rewrite (last_pushed_nodup_nth row k d Hnd Hk). reflexivity.
Qed.
Print Assumptions aligned_row_positional.

(** necessity: headings a b c, a row that punches a and c only: its second text cell is c's value, column 2 (b) is empty *)
Example skipped_value_misaligns :
  let t := spec_run [OPush "a" (CLong 1); OPush "b" (CLong 2); OPush "c" (CLong 3); OEndRow;
                     OPush "a" (CLong 10); OPush "c" (CLong 30); OEndRow] in
  spec_get t 2 1 = CEmpty /\ snd (nth 1 (nth 1 (t_closed t) []) (EmptyString, CEmpty)) = CLong 30 /\
  ~ aligned (t_heads t) (nth 1 (t_closed t) []).
Proof.
  cbv zeta. split; [reflexivity|]. split; [reflexivity|].
  intros [_ H]. vm_compute in H. discriminate H.
Qed.
