(** Extraction of the executable wrapper models (ExtrOcamlBasic + ExtrOcamlString only). *)
From Coq Require Import Extraction ExtrOcamlBasic ExtrOcamlString ZArith List String.
From IPV.Wrapper Require Import SelOut Route Lines.
Extraction Language OCaml.
Extraction "wrapper_model.ml" SelOut.run SelOut.step SelOut.so_init SelOut.get SelOut.row_count SelOut.col_count
  Route.consume Route.sel_string Route.sel_file Route.table_of Lines.split_lines Lines.get_line Lines.line_count Z.add Z.mul Z.opp Z.sub.
