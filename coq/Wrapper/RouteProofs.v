(** Theorems about the routing model (Route.v) and the line views (Lines.v).  (C09, C05) *)
From Coq Require Import List ZArith String Ascii Bool Lia.
From IPV.Wrapper Require Import SelOut Route Lines.
Import ListNotations.
Local Open Scope list_scope.

(** The record projections of [Route.sinks] take the section variable [chunk] of Route.v as an
    explicit first argument once the section is closed.  The statements below are written as
    [out_s (consume sw evs)], so [chunk] is declared implicit here (locally to this file; the
    models are untouched). *)
#[local] Arguments out_s {chunk}.
#[local] Arguments out_f {chunk}.
#[local] Arguments log_s {chunk}.
#[local] Arguments log_f {chunk}.
#[local] Arguments err_s {chunk}.
#[local] Arguments err_f {chunk}.
#[local] Arguments warn_s {chunk}.
#[local] Arguments sel_s {chunk}.
#[local] Arguments sel_f {chunk}.
#[local] Arguments tables {chunk}.

(** * Association lists *)

Lemma lookup_update_same : forall (A : Type) (n : Z) (f : option A -> A) (m : list (Z * A)),
  lookup n (update n f m) = Some (f (lookup n m)).
Proof.
  intros A n f m. induction m as [|[k v] t IH]; simpl.
  - rewrite Z.eqb_refl. reflexivity.
  - destruct (Z.eqb n k) eqn:E; simpl; rewrite E.
    + reflexivity.
    + exact IH.
Qed.

Lemma lookup_update_other : forall (A : Type) (n m : Z) (f : option A -> A) (l : list (Z * A)),
  n <> m -> lookup n (update m f l) = lookup n l.
Proof.
  intros A n m f l Hne. induction l as [|[k v] t IH]; simpl.
  - destruct (Z.eqb_spec n m) as [E|E]; [contradiction|reflexivity].
  - destruct (Z.eqb_spec m k) as [E|E]; simpl.
    + subst k. destruct (Z.eqb_spec n m) as [E'|E']; [contradiction|reflexivity].
    + destruct (Z.eqb n k); [reflexivity|exact IH].
Qed.

Section R.
Variable chunk : Type.
Variable STOPPING : chunk.
Variable add_nl : chunk -> chunk.
Notation consume := (consume chunk STOPPING add_nl).
Notation ev := (ev chunk).
Notation route := (route chunk STOPPING add_nl).
Notation sinks := (sinks chunk).

(* projections of an event stream *)
Definition out_chunks (e : ev) : list chunk :=           (* what the output stream is offered *)
  match e with EOut true c => [c] | EWarn c true _ => [add_nl c] | _ => [] end.
Definition log_chunks (e : ev) : list chunk :=
  match e with ELog true c => [c] | EWarn c _ true => [add_nl c] | _ => [] end.
Definition err_chunks (e : ev) : list chunk := match e with EErr c _ _ _ => [c] | _ => [] end.
Definition errfile_chunks (e : ev) : list chunk :=
  match e with EErr c stop _ _ => if stop then [c; STOPPING] else [c] | EWarn c _ _ => [add_nl c] | _ => [] end.
Definition warn_chunks (e : ev) : list chunk := match e with EWarn c _ _ => [add_nl c] | _ => [] end.
Definition sel_chunks (n : Z) (e : ev) : list chunk :=   (* offered to the string of user number n *)
  match e with
  | EPunchMsg m true _ c => if Z.eqb n m then [c] else []
  | EPunchVal m true _ _ _ c => if Z.eqb n m then [c] else []
  | _ => [] end.
Definition self_chunks (n : Z) (e : ev) : list chunk :=  (* offered to the file of user number n *)
  match e with
  | EPunchMsg m true true c => if Z.eqb n m then [c] else []
  | EPunchVal m true true _ _ c => if Z.eqb n m then [c] else []
  | _ => [] end.
Definition so_ops (n : Z) (e : ev) : list op :=          (* table operations of user number n *)
  match e with
  | EPunchVal m _ _ name v _ => if Z.eqb n m then [OPush name v] else []
  | EEndRow m pending => if Z.eqb n m then map (fun h => OPush h CEmpty) pending ++ [OEndRow] else []
  | _ => [] end.

(* well-formed stream for n: the table of n is created (ENewTable n) before its first EEndRow *)
Fixpoint wf (n : Z) (created : bool) (evs : list ev) : bool :=
  match evs with
  | [] => true
  | ENewTable m :: t => wf n (created || Z.eqb n m) t
  | EPunchVal m _ _ _ _ _ :: t => wf n (created || Z.eqb n m) t
  | EEndRow m _ :: t => (negb (Z.eqb n m) || created) && wf n created t
  | _ :: t => wf n created t
  end.

(* (re)opening of the punch file of n: punch_open with the file switch on *)
Definition is_open (n : Z) (e : ev) : bool :=
  match e with EPunchOpen m true => Z.eqb n m | _ => false end.

(* the suffix of the stream after the last [EPunchOpen n true] (the whole stream if there is none) *)
Fixpoint after_last_open (n : Z) (evs : list ev) : list ev :=
  match evs with
  | [] => []
  | e :: t => if existsb (is_open n) t then after_last_open n t
              else if is_open n e then t else e :: t
  end.

(* nothing was offered to the sinks of n before the last (re)opening of its file *)
Definition no_reopen (n : Z) (evs : list ev) : Prop :=
  flat_map (sel_chunks n) evs = flat_map (sel_chunks n) (after_last_open n evs).

Lemma is_open_true : forall n e, is_open n e = true -> e = EPunchOpen n true.
Proof.
  intros n e H. destruct e as [on c|on c|c stop oon lon|c oon lon|m on fopen c|m on fopen name v c|m pending|m|m opened];
    simpl in H; try discriminate H.
  destruct opened; [|discriminate H]. apply Z.eqb_eq in H. subst m. reflexivity.
Qed.

Lemma is_open_no_chunk : forall n e, is_open n e = true -> self_chunks n e = [].
Proof. intros n e H. rewrite (is_open_true n e H). reflexivity. Qed.

(** characterisation of [after_last_open] *)
Lemma after_last_open_none : forall n evs,
  existsb (is_open n) evs = false -> after_last_open n evs = evs.
Proof.
  intros n evs. induction evs as [|e t IH]; intros H; simpl in *.
  - reflexivity.
  - apply orb_false_iff in H. destruct H as [He Ht]. rewrite Ht, He. reflexivity.
Qed.

Lemma after_last_open_app : forall n evs1 evs2,
  after_last_open n (evs1 ++ EPunchOpen n true :: evs2) = after_last_open n (EPunchOpen n true :: evs2).
Proof.
  intros n evs1 evs2. induction evs1 as [|e t IH].
  - reflexivity.
  - change ((e :: t) ++ EPunchOpen n true :: evs2) with (e :: (t ++ EPunchOpen n true :: evs2)).
    cbn [after_last_open].
    assert (Hex : existsb (is_open n) (t ++ EPunchOpen n true :: evs2) = true).
    { rewrite existsb_app. simpl. rewrite Z.eqb_refl, orb_true_r. reflexivity. }
    rewrite Hex. exact IH.
Qed.

Lemma after_last_open_last : forall n evs1 evs2, existsb (is_open n) evs2 = false ->
  after_last_open n (evs1 ++ EPunchOpen n true :: evs2) = evs2.
Proof.
  intros n evs1 evs2 H. rewrite after_last_open_app. simpl. rewrite H, Z.eqb_refl. reflexivity.
Qed.

Lemma after_last_open_suffix : forall n evs, exists pre, evs = pre ++ after_last_open n evs.
Proof.
  intros n evs. induction evs as [|e t IH]; simpl.
  - exists []. reflexivity.
  - destruct (existsb (is_open n) t).
    + destruct IH as [pre Hpre]. exists (e :: pre). simpl. rewrite <- Hpre. reflexivity.
    + destruct (is_open n e).
      * exists [e]. reflexivity.
      * exists []. reflexivity.
Qed.

Lemma after_last_open_no_open : forall n evs, existsb (is_open n) (after_last_open n evs) = false.
Proof.
  intros n evs. induction evs as [|e t IH]; simpl.
  - reflexivity.
  - destruct (existsb (is_open n) t) eqn:Ht.
    + exact IH.
    + destruct (is_open n e) eqn:He; simpl; [exact Ht|rewrite He, Ht; reflexivity].
Qed.

Lemma after_last_open_In : forall n evs e, In e (after_last_open n evs) -> In e evs.
Proof.
  intros n evs e Hin. destruct (after_last_open_suffix n evs) as [pre Hpre].
  rewrite Hpre. apply in_or_app. right. exact Hin.
Qed.

(** * Generic fold lemma: a sink that grows by [ch e] at every event *)

Lemma fold_sink : forall (B : Type) (proj : sinks -> list B) (en : bool) (ch : ev -> list B) sw,
  (forall k e, proj (route sw k e) = proj k ++ (if en then ch e else [])) ->
  forall evs k, proj (fold_left (route sw) evs k) = proj k ++ (if en then flat_map ch evs else []).
Proof.
  intros B proj en ch sw Hstep evs.
  induction evs as [|e t IH]; intros k; simpl.
  - destruct en; rewrite app_nil_r; reflexivity.
  - rewrite IH, Hstep. destruct en; simpl.
    + rewrite app_assoc. reflexivity.
    + rewrite !app_nil_r. reflexivity.
Qed.

(** * One-step lemmas *)

Lemma out_s_step : forall sw k e,
  out_s (route sw k e) = out_s k ++ (if OutputStringOn sw then out_chunks e else []).
Proof.
  intros sw k e.
  destruct e as [on c|on c|c stop oon lon|c oon lon|n on fopen c|n on fopen name v c|n pending|n|n opened]; simpl.
  - destruct (OutputStringOn sw), on; simpl; rewrite ?app_nil_r; reflexivity.
  - destruct (OutputStringOn sw), on; simpl; rewrite ?app_nil_r; reflexivity.
  - destruct (OutputStringOn sw); rewrite ?app_nil_r; reflexivity.
  - destruct (OutputStringOn sw), oon, lon; simpl; rewrite ?app_nil_r; reflexivity.
  - destruct (OutputStringOn sw), on; simpl; rewrite ?app_nil_r; reflexivity.
  - destruct (OutputStringOn sw), on; simpl; rewrite ?app_nil_r; reflexivity.
  - destruct (lookup n (tables k)); destruct (OutputStringOn sw); simpl; rewrite ?app_nil_r; reflexivity.
  - destruct (lookup n (tables k)); destruct (OutputStringOn sw); simpl; rewrite ?app_nil_r; reflexivity.
  - destruct opened; destruct (OutputStringOn sw); simpl; rewrite ?app_nil_r; reflexivity.
Qed.

Lemma out_f_step : forall sw k e,
  out_f (route sw k e) = out_f k ++ (if OutputFileOn sw then out_chunks e else []).
Proof.
  intros sw k e.
  destruct e as [on c|on c|c stop oon lon|c oon lon|n on fopen c|n on fopen name v c|n pending|n|n opened]; simpl.
  - destruct (OutputFileOn sw), on; simpl; rewrite ?app_nil_r; reflexivity.
  - destruct (OutputFileOn sw), on; simpl; rewrite ?app_nil_r; reflexivity.
  - destruct (OutputFileOn sw); rewrite ?app_nil_r; reflexivity.
  - destruct (OutputFileOn sw), oon, lon; simpl; rewrite ?app_nil_r; reflexivity.
  - destruct (OutputFileOn sw), on; simpl; rewrite ?app_nil_r; reflexivity.
  - destruct (OutputFileOn sw), on; simpl; rewrite ?app_nil_r; reflexivity.
  - destruct (lookup n (tables k)); destruct (OutputFileOn sw); simpl; rewrite ?app_nil_r; reflexivity.
  - destruct (lookup n (tables k)); destruct (OutputFileOn sw); simpl; rewrite ?app_nil_r; reflexivity.
  - destruct opened; destruct (OutputFileOn sw); simpl; rewrite ?app_nil_r; reflexivity.
Qed.

Lemma log_s_step : forall sw k e,
  log_s (route sw k e) = log_s k ++ (if LogStringOn sw then log_chunks e else []).
Proof.
  intros sw k e.
  destruct e as [on c|on c|c stop oon lon|c oon lon|n on fopen c|n on fopen name v c|n pending|n|n opened]; simpl.
  - destruct (LogStringOn sw), on; simpl; rewrite ?app_nil_r; reflexivity.
  - destruct (LogStringOn sw), on; simpl; rewrite ?app_nil_r; reflexivity.
  - destruct (LogStringOn sw); rewrite ?app_nil_r; reflexivity.
  - destruct (LogStringOn sw), oon, lon; simpl; rewrite ?app_nil_r; reflexivity.
  - destruct (LogStringOn sw), on; simpl; rewrite ?app_nil_r; reflexivity.
  - destruct (LogStringOn sw), on; simpl; rewrite ?app_nil_r; reflexivity.
  - destruct (lookup n (tables k)); destruct (LogStringOn sw); simpl; rewrite ?app_nil_r; reflexivity.
  - destruct (lookup n (tables k)); destruct (LogStringOn sw); simpl; rewrite ?app_nil_r; reflexivity.
  - destruct opened; destruct (LogStringOn sw); simpl; rewrite ?app_nil_r; reflexivity.
Qed.

Lemma log_f_step : forall sw k e,
  log_f (route sw k e) = log_f k ++ (if LogFileOn sw then log_chunks e else []).
Proof.
  intros sw k e.
  destruct e as [on c|on c|c stop oon lon|c oon lon|n on fopen c|n on fopen name v c|n pending|n|n opened]; simpl.
  - destruct (LogFileOn sw), on; simpl; rewrite ?app_nil_r; reflexivity.
  - destruct (LogFileOn sw), on; simpl; rewrite ?app_nil_r; reflexivity.
  - destruct (LogFileOn sw); rewrite ?app_nil_r; reflexivity.
  - destruct (LogFileOn sw), oon, lon; simpl; rewrite ?app_nil_r; reflexivity.
  - destruct (LogFileOn sw), on; simpl; rewrite ?app_nil_r; reflexivity.
  - destruct (LogFileOn sw), on; simpl; rewrite ?app_nil_r; reflexivity.
  - destruct (lookup n (tables k)); destruct (LogFileOn sw); simpl; rewrite ?app_nil_r; reflexivity.
  - destruct (lookup n (tables k)); destruct (LogFileOn sw); simpl; rewrite ?app_nil_r; reflexivity.
  - destruct opened; destruct (LogFileOn sw); simpl; rewrite ?app_nil_r; reflexivity.
Qed.

Lemma err_s_step : forall sw k e,
  err_s (route sw k e) = err_s k ++ (if ErrorStringOn sw && ErrorOn sw then err_chunks e else []).
Proof.
  intros sw k e.
  destruct e as [on c|on c|c stop oon lon|c oon lon|n on fopen c|n on fopen name v c|n pending|n|n opened]; simpl.
  - destruct (ErrorStringOn sw && ErrorOn sw); simpl; rewrite ?app_nil_r; reflexivity.
  - destruct (ErrorStringOn sw && ErrorOn sw); simpl; rewrite ?app_nil_r; reflexivity.
  - destruct (ErrorStringOn sw && ErrorOn sw); simpl; rewrite ?app_nil_r; reflexivity.
  - destruct (ErrorStringOn sw && ErrorOn sw); simpl; rewrite ?app_nil_r; reflexivity.
  - destruct (ErrorStringOn sw && ErrorOn sw); simpl; rewrite ?app_nil_r; reflexivity.
  - destruct (ErrorStringOn sw && ErrorOn sw); simpl; rewrite ?app_nil_r; reflexivity.
  - destruct (lookup n (tables k)); destruct (ErrorStringOn sw && ErrorOn sw); simpl; rewrite ?app_nil_r; reflexivity.
  - destruct (lookup n (tables k)); destruct (ErrorStringOn sw && ErrorOn sw); simpl; rewrite ?app_nil_r; reflexivity.
  - destruct opened; destruct (ErrorStringOn sw && ErrorOn sw); simpl; rewrite ?app_nil_r; reflexivity.
Qed.

Lemma err_f_step : forall sw k e,
  err_f (route sw k e) = err_f k ++ (if ErrorFileOn sw && ErrorOn sw then errfile_chunks e else []).
Proof.
  intros sw k e.
  destruct e as [on c|on c|c stop oon lon|c oon lon|n on fopen c|n on fopen name v c|n pending|n|n opened]; simpl.
  - destruct (ErrorFileOn sw && ErrorOn sw); simpl; rewrite ?app_nil_r; reflexivity.
  - destruct (ErrorFileOn sw && ErrorOn sw); simpl; rewrite ?app_nil_r; reflexivity.
  - destruct (ErrorFileOn sw && ErrorOn sw), stop; simpl; rewrite <- ?app_assoc, ?app_nil_r; reflexivity.
  - destruct (ErrorFileOn sw && ErrorOn sw); simpl; rewrite ?app_nil_r; reflexivity.
  - destruct (ErrorFileOn sw && ErrorOn sw); simpl; rewrite ?app_nil_r; reflexivity.
  - destruct (ErrorFileOn sw && ErrorOn sw); simpl; rewrite ?app_nil_r; reflexivity.
  - destruct (lookup n (tables k)); destruct (ErrorFileOn sw && ErrorOn sw); simpl; rewrite ?app_nil_r; reflexivity.
  - destruct (lookup n (tables k)); destruct (ErrorFileOn sw && ErrorOn sw); simpl; rewrite ?app_nil_r; reflexivity.
  - destruct opened; destruct (ErrorFileOn sw && ErrorOn sw); simpl; rewrite ?app_nil_r; reflexivity.
Qed.

Lemma warn_s_step : forall sw k e,
  warn_s (route sw k e) = warn_s k ++ (if WarningStringOn sw then warn_chunks e else []).
Proof.
  intros sw k e.
  destruct e as [on c|on c|c stop oon lon|c oon lon|n on fopen c|n on fopen name v c|n pending|n|n opened]; simpl.
  - destruct (WarningStringOn sw); simpl; rewrite ?app_nil_r; reflexivity.
  - destruct (WarningStringOn sw); simpl; rewrite ?app_nil_r; reflexivity.
  - destruct (WarningStringOn sw); simpl; rewrite ?app_nil_r; reflexivity.
  - destruct (WarningStringOn sw); simpl; rewrite ?app_nil_r; reflexivity.
  - destruct (WarningStringOn sw); simpl; rewrite ?app_nil_r; reflexivity.
  - destruct (WarningStringOn sw); simpl; rewrite ?app_nil_r; reflexivity.
  - destruct (lookup n (tables k)); destruct (WarningStringOn sw); simpl; rewrite ?app_nil_r; reflexivity.
  - destruct (lookup n (tables k)); destruct (WarningStringOn sw); simpl; rewrite ?app_nil_r; reflexivity.
  - destruct opened; destruct (WarningStringOn sw); simpl; rewrite ?app_nil_r; reflexivity.
Qed.

(** string / file of user number [n] after appending [c] to the entry of [m] *)
Lemma sel_lookup_app : forall (n m : Z) (c : chunk) (l : list (Z * list chunk)),
  match lookup n (update m (app_to chunk c) l) with Some x => x | None => [] end =
  match lookup n l with Some x => x | None => [] end ++ (if Z.eqb n m then [c] else []).
Proof.
  intros n m c l. destruct (Z.eqb_spec n m) as [E|E].
  - subst m. rewrite lookup_update_same. destruct (lookup n l); reflexivity.
  - rewrite lookup_update_other by exact E. rewrite app_nil_r. reflexivity.
Qed.

Lemma sel_string_step : forall sw n k e,
  sel_string chunk (route sw k e) n =
  sel_string chunk k n ++ (if SelStringOn sw n then sel_chunks n e else []).
Proof.
  intros sw n k e. unfold sel_string.
  destruct e as [on c|on c|c stop oon lon|c oon lon|m on fopen c|m on fopen name v c|m pending|m|m opened]; simpl.
  - destruct (SelStringOn sw n); rewrite app_nil_r; reflexivity.
  - destruct (SelStringOn sw n); rewrite app_nil_r; reflexivity.
  - destruct (SelStringOn sw n); rewrite app_nil_r; reflexivity.
  - destruct (SelStringOn sw n); rewrite app_nil_r; reflexivity.
  - destruct (Z.eqb_spec n m) as [E|E].
    + subst m. destruct (SelStringOn sw n), on; simpl; rewrite ?app_nil_r; try reflexivity.
      rewrite sel_lookup_app, Z.eqb_refl. reflexivity.
    + destruct (SelStringOn sw m && on).
      * rewrite sel_lookup_app. destruct (Z.eqb_spec n m) as [E'|_]; [contradiction|].
        destruct (SelStringOn sw n), on; reflexivity.
      * destruct (SelStringOn sw n), on; rewrite app_nil_r; reflexivity.
  - destruct (Z.eqb_spec n m) as [E|E].
    + subst m. destruct (SelStringOn sw n), on; simpl; rewrite ?app_nil_r; try reflexivity.
      rewrite sel_lookup_app, Z.eqb_refl. reflexivity.
    + destruct (SelStringOn sw m && on).
      * rewrite sel_lookup_app. destruct (Z.eqb_spec n m) as [E'|_]; [contradiction|].
        destruct (SelStringOn sw n), on; reflexivity.
      * destruct (SelStringOn sw n), on; rewrite app_nil_r; reflexivity.
  - destruct (lookup m (tables k)); destruct (SelStringOn sw n); simpl; rewrite app_nil_r; reflexivity.
  - assert (Hsame : match lookup n (sel_s (match lookup m (tables k) with
                       | Some _ => k
                       | None => set_sel chunk k
                            (update m (fun o => match o with Some l => l | None => [] end) (sel_s k))
                            (sel_f k) (update m (fun _ => so_init) (tables k))
                       end)) with Some l => l | None => [] end
                    = match lookup n (sel_s k) with Some l => l | None => [] end).
    { destruct (lookup m (tables k)); [reflexivity|]. simpl.
      destruct (Z.eqb_spec n m) as [E|E].
      - subst m. rewrite lookup_update_same. destruct (lookup n (sel_s k)); reflexivity.
      - rewrite lookup_update_other by exact E. reflexivity. }
    rewrite Hsame. destruct (SelStringOn sw n); rewrite app_nil_r; reflexivity.
  - destruct opened; destruct (SelStringOn sw n); simpl; rewrite app_nil_r; reflexivity.
Qed.

(** the punch file of [n] is truncated by [EPunchOpen n true] (a fresh ofstream replaces the stream) *)
Lemma sel_file_step : forall sw n k e,
  sel_file chunk (route sw k e) n =
  (if is_open n e then [] else sel_file chunk k n) ++ self_chunks n e.
Proof.
  intros sw n k e. unfold sel_file.
  destruct e as [on c|on c|c stop oon lon|c oon lon|m on fopen c|m on fopen name v c|m pending|m|m opened]; simpl;
    try (rewrite app_nil_r; reflexivity).
  - destruct fopen, on; simpl; rewrite ?app_nil_r; try reflexivity. apply sel_lookup_app.
  - destruct fopen, on; simpl; rewrite ?app_nil_r; try reflexivity. apply sel_lookup_app.
  - destruct (lookup m (tables k)); simpl; rewrite app_nil_r; reflexivity.
  - destruct (lookup m (tables k)); simpl; rewrite app_nil_r; reflexivity.
  - destruct opened; simpl; [|rewrite app_nil_r; reflexivity].
    destruct (Z.eqb_spec n m) as [E|E].
    + subst m. rewrite lookup_update_same. reflexivity.
    + rewrite lookup_update_other by exact E. rewrite app_nil_r. reflexivity.
Qed.

Lemma sel_file_fold : forall sw n evs k,
  sel_file chunk (fold_left (route sw) evs k) n =
  (if existsb (is_open n) evs then [] else sel_file chunk k n) ++
  flat_map (self_chunks n) (after_last_open n evs).
Proof.
  intros sw n evs. induction evs as [|e t IH]; intros k; simpl.
  - rewrite app_nil_r. reflexivity.
  - rewrite IH, sel_file_step.
    destruct (existsb (is_open n) t) eqn:Ht.
    + rewrite orb_true_r. reflexivity.
    + rewrite orb_false_r, (after_last_open_none n t Ht).
      destruct (is_open n e) eqn:He; simpl.
      * rewrite (is_open_no_chunk n e He). reflexivity.
      * rewrite app_assoc. reflexivity.
Qed.

(** * Sink specifications *)

Theorem out_string_spec : forall sw evs,
  out_s (consume sw evs) = if OutputStringOn sw then flat_map out_chunks evs else [].
Proof.
  intros sw evs. unfold Route.consume.
  rewrite (fold_sink _ out_s (OutputStringOn sw) out_chunks sw (out_s_step sw)). reflexivity.
Qed.

Theorem out_file_spec : forall sw evs,
  out_f (consume sw evs) = if OutputFileOn sw then flat_map out_chunks evs else [].
Proof.
  intros sw evs. unfold Route.consume.
  rewrite (fold_sink _ out_f (OutputFileOn sw) out_chunks sw (out_f_step sw)). reflexivity.
Qed.

Theorem log_string_spec : forall sw evs,
  log_s (consume sw evs) = if LogStringOn sw then flat_map log_chunks evs else [].
Proof.
  intros sw evs. unfold Route.consume.
  rewrite (fold_sink _ log_s (LogStringOn sw) log_chunks sw (log_s_step sw)). reflexivity.
Qed.

Theorem log_file_spec : forall sw evs,
  log_f (consume sw evs) = if LogFileOn sw then flat_map log_chunks evs else [].
Proof.
  intros sw evs. unfold Route.consume.
  rewrite (fold_sink _ log_f (LogFileOn sw) log_chunks sw (log_f_step sw)). reflexivity.
Qed.

Theorem err_string_spec : forall sw evs,
  err_s (consume sw evs) = if ErrorStringOn sw && ErrorOn sw then flat_map err_chunks evs else [].
Proof.
  intros sw evs. unfold Route.consume.
  rewrite (fold_sink _ err_s (ErrorStringOn sw && ErrorOn sw) err_chunks sw (err_s_step sw)). reflexivity.
Qed.

Theorem err_file_spec : forall sw evs,
  err_f (consume sw evs) = if ErrorFileOn sw && ErrorOn sw then flat_map errfile_chunks evs else [].
Proof.
  intros sw evs. unfold Route.consume.
  rewrite (fold_sink _ err_f (ErrorFileOn sw && ErrorOn sw) errfile_chunks sw (err_f_step sw)). reflexivity.
Qed.

Theorem warn_string_spec : forall sw evs,
  warn_s (consume sw evs) = if WarningStringOn sw then flat_map warn_chunks evs else [].
Proof.
  intros sw evs. unfold Route.consume.
  rewrite (fold_sink _ warn_s (WarningStringOn sw) warn_chunks sw (warn_s_step sw)). reflexivity.
Qed.

Theorem sel_string_spec : forall sw evs n,
  sel_string chunk (consume sw evs) n = if SelStringOn sw n then flat_map (sel_chunks n) evs else [].
Proof.
  intros sw evs n. unfold Route.consume.
  rewrite (fold_sink _ (fun k => sel_string chunk k n) (SelStringOn sw n) (sel_chunks n) sw
             (sel_string_step sw n)).
  reflexivity.
Qed.

Theorem sel_file_spec : forall sw evs n,
  sel_file chunk (consume sw evs) n = flat_map (self_chunks n) (after_last_open n evs).
Proof.
  intros sw evs n. unfold Route.consume.
  rewrite sel_file_fold. destruct (existsb (is_open n) evs); reflexivity.
Qed.

(* C09: re-opening the punch file of n loses what was written before; the string keeps it *)
Theorem reopen_truncates : forall sw evs1 evs2 n,
  sel_file chunk (consume sw (evs1 ++ EPunchOpen n true :: evs2)) n =
  sel_file chunk (consume sw (EPunchOpen n true :: evs2)) n.
Proof.
  intros sw evs1 evs2 n. rewrite !sel_file_spec, after_last_open_app. reflexivity.
Qed.

Theorem string_survives_reopen : forall sw evs1 evs2 n,
  sel_string chunk (consume sw (evs1 ++ EPunchOpen n true :: evs2)) n =
  sel_string chunk (consume sw (evs1 ++ evs2)) n.
Proof.
  intros sw evs1 evs2 n. rewrite !sel_string_spec, !flat_map_app. reflexivity.
Qed.

(** * The table of a user number *)

Definition ok1 (n : Z) (created : bool) (e : ev) : bool :=
  match e with EEndRow m _ => negb (Z.eqb n m) || created | _ => true end.
Definition next1 (n : Z) (created : bool) (e : ev) : bool :=
  match e with
  | ENewTable m => created || Z.eqb n m
  | EPunchVal m _ _ _ _ _ => created || Z.eqb n m
  | _ => created
  end.

Lemma wf_cons : forall n created e t,
  wf n created (e :: t) = ok1 n created e && wf n (next1 n created e) t.
Proof. intros n created e t. destruct e; reflexivity. Qed.

Lemma fold_pending : forall pending t,
  fold_left step (map (fun h => OPush h CEmpty) pending) t =
  fold_left (fun t h => push_back t h CEmpty) pending t.
Proof.
  intros pending. induction pending as [|h p IH]; intros t; simpl.
  - reflexivity.
  - apply IH.
Qed.

Lemma table_step : forall sw n k e created,
  (created = true -> lookup n (tables k) <> None) ->
  ok1 n created e = true ->
  table_of chunk (route sw k e) n = fold_left step (so_ops n e) (table_of chunk k n).
Proof.
  intros sw n k e created Hinv Hok. unfold table_of.
  destruct e as [on c|on c|c stop oon lon|c oon lon|m on fopen c|m on fopen name v c|m pending|m|m opened];
    simpl; try reflexivity.
  - destruct (Z.eqb_spec n m) as [E|E].
    + subst m. rewrite lookup_update_same. reflexivity.
    + rewrite lookup_update_other by exact E. reflexivity.
  - simpl in Hok. destruct (Z.eqb_spec n m) as [E|E].
    + subst m. simpl in Hok. specialize (Hinv Hok).
      destruct (lookup n (tables k)) as [t|] eqn:Hl; [|contradiction].
      simpl. rewrite lookup_update_same. rewrite fold_left_app, fold_pending. reflexivity.
    + destruct (lookup m (tables k)) as [t|]; simpl.
      * rewrite lookup_update_other by exact E. reflexivity.
      * reflexivity.
  - destruct (lookup m (tables k)) as [t|] eqn:Hl; [reflexivity|]. simpl.
    destruct (Z.eqb_spec n m) as [E|E].
    + subst m. rewrite lookup_update_same, Hl. reflexivity.
    + rewrite lookup_update_other by exact E. reflexivity.
  - destruct opened; reflexivity.
Qed.

Lemma created_step : forall sw n k e created,
  (created = true -> lookup n (tables k) <> None) ->
  (next1 n created e = true -> lookup n (tables (route sw k e)) <> None).
Proof.
  intros sw n k e created Hinv.
  destruct e as [on c|on c|c stop oon lon|c oon lon|m on fopen c|m on fopen name v c|m pending|m|m opened];
    simpl; try exact Hinv.
  - intros Hn. destruct (Z.eqb_spec n m) as [E|E].
    + subst m. rewrite lookup_update_same. discriminate.
    + rewrite lookup_update_other by exact E. apply Hinv.
      rewrite orb_false_r in Hn. exact Hn.
  - intros Hn. destruct (lookup m (tables k)) as [t|] eqn:Hl; simpl; [|exact (Hinv Hn)].
    destruct (Z.eqb_spec n m) as [E|E].
    + subst m. rewrite lookup_update_same. discriminate.
    + rewrite lookup_update_other by exact E. exact (Hinv Hn).
  - intros Hn. destruct (Z.eqb_spec n m) as [E|E].
    + subst m. destruct (lookup n (tables k)) as [t|] eqn:Hl; simpl.
      * rewrite Hl. discriminate.
      * rewrite lookup_update_same. discriminate.
    + rewrite orb_false_r in Hn.
      destruct (lookup m (tables k)) as [t|] eqn:Hl; simpl.
      * exact (Hinv Hn).
      * rewrite lookup_update_other by exact E. exact (Hinv Hn).
  - destruct opened; exact Hinv.
Qed.

Lemma table_fold : forall sw n evs k created,
  (created = true -> lookup n (tables k) <> None) ->
  wf n created evs = true ->
  table_of chunk (fold_left (route sw) evs k) n =
  fold_left step (flat_map (so_ops n) evs) (table_of chunk k n).
Proof.
  intros sw n evs. induction evs as [|e t IH]; intros k created Hinv Hwf.
  - reflexivity.
  - rewrite wf_cons in Hwf. apply andb_true_iff in Hwf. destruct Hwf as [Hok Hwf].
    simpl. rewrite fold_left_app.
    rewrite (IH (route sw k e) (next1 n created e) (created_step sw n k e created Hinv) Hwf).
    rewrite (table_step sw n k e created Hinv Hok). reflexivity.
Qed.

Theorem table_spec : forall sw evs n, wf n false evs = true ->
  table_of chunk (consume sw evs) n = run (flat_map (so_ops n) evs).
Proof.
  intros sw evs n Hwf. unfold Route.consume, run.
  rewrite (table_fold sw n evs (sinks0 chunk) false); [reflexivity| |exact Hwf].
  intros Hf. discriminate Hf.
Qed.

(* C09: file and string sinks of a stream are identical when both are enabled; a disabled sink is empty *)
Corollary file_eq_string_output : forall sw evs, OutputFileOn sw = true -> OutputStringOn sw = true ->
  out_f (consume sw evs) = out_s (consume sw evs).
Proof.
  intros sw evs Hf Hs. rewrite out_file_spec, out_string_spec, Hf, Hs. reflexivity.
Qed.

Corollary file_eq_string_log : forall sw evs, LogFileOn sw = true -> LogStringOn sw = true ->
  log_f (consume sw evs) = log_s (consume sw evs).
Proof.
  intros sw evs Hf Hs. rewrite log_file_spec, log_string_spec, Hf, Hs. reflexivity.
Qed.

Corollary file_eq_string_selected : forall sw evs n, SelStringOn sw n = true ->
  no_reopen n evs ->                                                (* nothing punched before the last (re)opening *)
  (forall e, In e evs -> self_chunks n e = sel_chunks n e) ->       (* punch stream of n open during the run *)
  sel_file chunk (consume sw evs) n = sel_string chunk (consume sw evs) n.
Proof.
  intros sw evs n Hs Hno Hopen. rewrite sel_file_spec, sel_string_spec, Hs.
  unfold no_reopen in Hno. rewrite Hno.
  assert (Hsuf : forall e, In e (after_last_open n evs) -> self_chunks n e = sel_chunks n e).
  { intros e Hin. apply Hopen. exact (after_last_open_In n evs e Hin). }
  clear Hno. revert Hsuf. generalize (after_last_open n evs) as l. intros l.
  induction l as [|e t IH]; intros Hsuf; simpl.
  - reflexivity.
  - rewrite (Hsuf e (or_introl eq_refl)). f_equal.
    apply IH. intros e' Hin. apply Hsuf. right. exact Hin.
Qed.

Corollary disabled_sinks_empty : forall sw evs,
  (OutputStringOn sw = false -> out_s (consume sw evs) = []) /\
  (OutputFileOn sw = false -> out_f (consume sw evs) = []) /\
  (LogStringOn sw = false -> log_s (consume sw evs) = []) /\
  (LogFileOn sw = false -> log_f (consume sw evs) = []) /\
  (ErrorStringOn sw = false -> err_s (consume sw evs) = []) /\
  (ErrorFileOn sw = false -> err_f (consume sw evs) = []) /\
  (forall n, SelStringOn sw n = false -> sel_string chunk (consume sw evs) n = []).
Proof.
  intros sw evs. repeat split.
  - intros H. rewrite out_string_spec, H. reflexivity.
  - intros H. rewrite out_file_spec, H. reflexivity.
  - intros H. rewrite log_string_spec, H. reflexivity.
  - intros H. rewrite log_file_spec, H. reflexivity.
  - intros H. rewrite err_string_spec, H. reflexivity.
  - intros H. rewrite err_file_spec, H. reflexivity.
  - intros n H. rewrite sel_string_spec, H. reflexivity.
Qed.

(* C09: every message of the error string appears in the error file, in order *)
Inductive sublist {A} : list A -> list A -> Prop :=
| sl_nil : forall l, sublist [] l
| sl_skip : forall x l1 l2, sublist l1 l2 -> sublist l1 (x :: l2)
| sl_keep : forall x l1 l2, sublist l1 l2 -> sublist (x :: l1) (x :: l2).

Lemma sublist_app : forall (A : Type) (a1 a2 b1 b2 : list A),
  sublist a1 a2 -> sublist b1 b2 -> sublist (a1 ++ b1) (a2 ++ b2).
Proof.
  intros A a1 a2 b1 b2 Ha Hb. induction Ha as [l|x l1 l2 Ha IH|x l1 l2 Ha IH]; simpl.
  - induction l as [|y l IHl]; simpl; [exact Hb|apply sl_skip; exact IHl].
  - apply sl_skip. exact IH.
  - apply sl_keep. exact IH.
Qed.

Lemma err_chunks_sublist : forall e, sublist (err_chunks e) (errfile_chunks e).
Proof.
  intros e. destruct e as [on c|on c|c stop oon lon|c oon lon|m on fopen c|m on fopen name v c|m pending|m|m opened];
    simpl; try apply sl_nil.
  destruct stop; apply sl_keep; apply sl_nil.
Qed.

Theorem error_string_in_file : forall sw evs, ErrorFileOn sw = true ->
  sublist (err_s (consume sw evs)) (err_f (consume sw evs)).
Proof.
  intros sw evs Hf. rewrite err_string_spec, err_file_spec, Hf. simpl.
  destruct (ErrorOn sw); [|rewrite andb_false_r; apply sl_nil].
  destruct (ErrorStringOn sw); simpl; [|apply sl_nil].
  induction evs as [|e t IH]; simpl.
  - apply sl_nil.
  - apply sublist_app; [apply err_chunks_sublist|exact IH].
Qed.

(* C09: results do not depend on the switches: the table of n is the same under any two switch settings *)
Lemma tables_route_indep : forall sw1 sw2 k1 k2 e,
  tables k1 = tables k2 -> tables (route sw1 k1 e) = tables (route sw2 k2 e).
Proof.
  intros sw1 sw2 k1 k2 e Ht.
  destruct e as [on c|on c|c stop oon lon|c oon lon|m on fopen c|m on fopen name v c|m pending|m|m opened];
    simpl; try exact Ht.
  - rewrite Ht. reflexivity.
  - rewrite Ht. destruct (lookup m (tables k2)); simpl; [reflexivity|exact Ht].
  - rewrite Ht. destruct (lookup m (tables k2)); simpl; [exact Ht|reflexivity].
  - destruct opened; exact Ht.
Qed.

Lemma tables_fold_indep : forall sw1 sw2 evs k1 k2,
  tables k1 = tables k2 ->
  tables (fold_left (route sw1) evs k1) = tables (fold_left (route sw2) evs k2).
Proof.
  intros sw1 sw2 evs. induction evs as [|e t IH]; intros k1 k2 Ht; simpl.
  - exact Ht.
  - apply IH. apply tables_route_indep. exact Ht.
Qed.

Theorem table_independent_of_switches : forall sw1 sw2 evs n,
  table_of chunk (consume sw1 evs) n = table_of chunk (consume sw2 evs) n.
Proof.
  intros sw1 sw2 evs n. unfold table_of, Route.consume.
  rewrite (tables_fold_indep sw1 sw2 evs (sinks0 chunk) (sinks0 chunk) eq_refl). reflexivity.
Qed.

(** C05: every value that reaches the TABLE of user number n also reaches its STRING (in order), provided the engine
    punches values only while the text sinks are on (punch_on) — the hypothesis [vals_on] that the correspondence
    checks on every recorded stream.  Without it the table can hold rows the string lacks ([punch_on_needed]). *)
Definition val_texts (n : Z) (e : ev) : list chunk :=
  match e with EPunchVal m _ _ _ _ c => if Z.eqb n m then [c] else [] | _ => [] end.

Definition vals_on (n : Z) (evs : list ev) : Prop :=
  forall on fo name v c, In (EPunchVal n on fo name v c) evs -> on = true.

Lemma val_texts_sublist_on : forall n e, (forall on fo name v c, e = EPunchVal n on fo name v c -> on = true) ->
  sublist (val_texts n e) (sel_chunks n e).
Proof.
  intros n e H.
  destruct e as [on c|on c|c stop oon lon|c oon lon|m on fopen c|m on fopen name v c|m pending|m|m opened];
    simpl; try apply sl_nil.
  destruct (Z.eqb n m) eqn:E; [|destruct on; apply sl_nil].
  apply Z.eqb_eq in E. subst m. rewrite (H on fopen name v c eq_refl).
  apply sl_keep. apply sl_nil.
Qed.

Theorem table_values_in_string : forall sw evs n, SelStringOn sw n = true -> vals_on n evs ->
  sublist (flat_map (val_texts n) evs) (sel_string chunk (consume sw evs) n).
Proof.
  intros sw evs n Hs Hon. rewrite sel_string_spec, Hs. unfold vals_on in Hon.
  induction evs as [|e t IH]; simpl.
  - apply sl_nil.
  - apply sublist_app.
    + apply val_texts_sublist_on. intros on fo name v c He. apply (Hon on fo name v c). left. exact He.
    + apply IH. intros on fo name v c Hin. apply (Hon on fo name v c). right. exact Hin.
Qed.

(** necessity of the hypothesis: one value punched while punch_on is false lands in the table and not in the string *)
Theorem punch_on_needed : forall sw (name : string) (v : cell) (c : chunk), SelStringOn sw 1%Z = true ->
  let evs := [ENewTable 1%Z; EPunchVal 1%Z false false name v c; EEndRow 1%Z []] in
  sel_string chunk (consume sw evs) 1%Z = [] /\ flat_map (val_texts 1%Z) evs = [c] /\
  flat_map (so_ops 1%Z) evs = [OPush name v; OEndRow].
Proof.
  intros sw name v c Hs evs. rewrite sel_string_spec, Hs. subst evs. simpl. repeat split.
Qed.

End R.

(* Lines.v *)

Lemma sapp_assoc : forall a b c : string, ((a ++ b) ++ c = a ++ (b ++ c))%string.
Proof.
  intros a b c. induction a as [|x a IH]; simpl.
  - reflexivity.
  - rewrite IH. reflexivity.
Qed.

Lemma sapp_nil_r : forall a : string, (a ++ EmptyString)%string = a.
Proof.
  intros a. induction a as [|x a IH]; simpl.
  - reflexivity.
  - rewrite IH. reflexivity.
Qed.

Lemma rev_string_app : forall l acc, rev_string l acc = (rev_string l EmptyString ++ acc)%string.
Proof.
  intros l. induction l as [|c t IH]; intros acc; simpl.
  - reflexivity.
  - rewrite (IH (String c acc)), (IH (String c EmptyString)), sapp_assoc. reflexivity.
Qed.

Theorem get_line_spec : forall s n,
  get_line s n = if (n <? 0)%Z || (Z.of_nat (List.length (split_lines s)) <=? n)%Z then EmptyString
                 else nth (Z.to_nat n) (split_lines s) EmptyString.        (* trivial by unfolding; keep *)
Proof. intros s n. reflexivity. Qed.

Theorem get_line_outside : forall s n, (n < 0 \/ line_count s <= n)%Z -> get_line s n = EmptyString.
Proof.
  intros s n H. unfold get_line.
  destruct (Z.ltb_spec n 0) as [Hlt|Hge]; simpl; [reflexivity|].
  destruct (Z.leb_spec (line_count s) n) as [Hle|Hgt]; [reflexivity|].
  exfalso. destruct H as [H|H]; lia.
Qed.

Lemma unlines_split_aux : forall p cur,
  unlines (split_aux cur (p ++ String nl EmptyString)%string) =
  (rev_string cur EmptyString ++ p ++ String nl EmptyString)%string.
Proof.
  intros p. induction p as [|c p IH]; intros cur; simpl.
  - rewrite ?Ascii.eqb_refl. simpl. reflexivity.
  - destruct (Ascii.eqb_spec c nl) as [E|E].
    + subst c. simpl. rewrite (IH []). simpl. reflexivity.
    + rewrite (IH (c :: cur)). simpl.
      rewrite (rev_string_app cur (String c EmptyString)), sapp_assoc. reflexivity.
Qed.

Theorem unlines_split : forall s, (s = EmptyString \/ exists p, s = (p ++ String nl EmptyString)%string) ->
  unlines (split_lines s) = s.         (* a newline-terminated string is exactly its lines *)
Proof.
  intros s [H|[p H]]; subst s.
  - reflexivity.
  - unfold split_lines. rewrite unlines_split_aux. reflexivity.
Qed.

Lemma split_aux_line : forall ln rest cur,
  (forall c, In c (list_ascii_of_string ln) -> c <> nl) ->
  split_aux cur (ln ++ String nl rest)%string =
  (rev_string cur EmptyString ++ ln)%string :: split_aux [] rest.
Proof.
  intros ln rest. induction ln as [|c ln IH]; intros cur Hno; simpl.
  - rewrite ?Ascii.eqb_refl, sapp_nil_r. reflexivity.
  - destruct (Ascii.eqb_spec c nl) as [E|E].
    + exfalso. apply (Hno c); [left; reflexivity|exact E].
    + rewrite (IH (c :: cur)).
      * simpl. rewrite (rev_string_app cur (String c EmptyString)), sapp_assoc. reflexivity.
      * intros c' Hin. apply Hno. right. exact Hin.
Qed.

Theorem split_unlines : forall l, Forall (fun ln => forall c, In c (list_ascii_of_string ln) -> c <> nl) l ->
  split_lines (unlines l) = l.
Proof.
  intros l Hl. unfold split_lines. induction Hl as [|ln l Hln Hl IH]; simpl.
  - reflexivity.
  - rewrite (split_aux_line ln (unlines l) [] Hln). simpl. rewrite IH. reflexivity.
Qed.

Lemma split_aux_app_nl : forall p b cur,
  split_aux cur ((p ++ String nl EmptyString) ++ b)%string =
  split_aux cur (p ++ String nl EmptyString)%string ++ split_aux [] b.
Proof.
  intros p b. induction p as [|c p IH]; intros cur; simpl.
  - rewrite ?Ascii.eqb_refl. reflexivity.
  - destruct (Ascii.eqb c nl).
    + rewrite (IH []). reflexivity.
    + apply IH.
Qed.

Theorem split_app_nl : forall a b, (a = EmptyString \/ exists p, a = (p ++ String nl EmptyString)%string) ->
  split_lines (a ++ b)%string = split_lines a ++ split_lines b.   (* appending whole lines appends line lists *)
Proof.
  intros a b [H|[p H]]; subst a.
  - reflexivity.
  - unfold split_lines. apply split_aux_app_nl.
Qed.

Print Assumptions out_string_spec.
Print Assumptions out_file_spec.
Print Assumptions log_string_spec.
Print Assumptions log_file_spec.
Print Assumptions err_string_spec.
Print Assumptions err_file_spec.
Print Assumptions warn_string_spec.
Print Assumptions sel_string_spec.
Print Assumptions sel_file_spec.
Print Assumptions reopen_truncates.
Print Assumptions string_survives_reopen.
Print Assumptions table_spec.
Print Assumptions file_eq_string_output.
Print Assumptions file_eq_string_log.
Print Assumptions file_eq_string_selected.
Print Assumptions disabled_sinks_empty.
Print Assumptions error_string_in_file.
Print Assumptions table_independent_of_switches.
Print Assumptions get_line_spec.
Print Assumptions get_line_outside.
Print Assumptions unlines_split.
Print Assumptions split_unlines.
Print Assumptions split_app_nl.
