(** Abstract specification of the selected-output table: the history of pushes, row by row.
    Short enough to read in a minute; SelOutProofs.v proves that the column-major implementation
    model (SelOut.v) refines it for every operation sequence. *)
From Coq Require Import List ZArith String Bool.
From IPV.Wrapper Require Import SelOut.
Import ListNotations.
Local Open Scope list_scope.

Record tbl := mkT {
  t_heads  : list string;                    (* headings in order of first appearance *)
  t_closed : list (list (string * cell));    (* finished rows, oldest first; a row = its pushes in order *)
  t_open   : list (string * cell)            (* pushes of the row being built *)
}.

Definition t_init : tbl := mkT [] [] [].

Definition mem (k : string) (l : list string) : bool := existsb (String.eqb k) l.

Definition spec_step (t : tbl) (o : op) : tbl :=
  match o with
  | OPush k v => mkT (if mem k (t_heads t) then t_heads t else t_heads t ++ [k]) (t_closed t) (t_open t ++ [(k, v)])
  | OEndRow => match t_heads t with
               | [] => t
               | _ => mkT (t_heads t) (t_closed t ++ [t_open t]) []
               end
  | OClear => t_init
  end.

Definition spec_run (ops : list op) : tbl := fold_left spec_step ops t_init.

(** last value pushed under heading [k] in a row; None if the cell was never punched *)
Fixpoint last_pushed (k : string) (row : list (string * cell)) : option cell :=
  match row with
  | [] => None
  | (k', v) :: rest =>
      match last_pushed k rest with
      | Some w => Some w
      | None => if String.eqb k k' then Some v else None
      end
  end.

Definition cell_or_empty (o : option cell) : cell := match o with Some v => v | None => CEmpty end.

(** what the documented API promises for Get(r, c), r >= 1 a finished row *)
Definition spec_get (t : tbl) (r c : nat) : cell :=
  cell_or_empty (last_pushed (nth c (t_heads t) EmptyString) (nth (r - 1) (t_closed t) [])).
