(** Executable model of the call protocol of an IPhreeqc instance (src/IPhreeqc.cpp: RunString, RunFile,
    RunAccumulated, AccumulateLine, ClearAccumulatedLines, LoadDatabase/LoadDatabaseString, load_db,
    UnLoadDatabase, check_database, do_run, the catch blocks, update_errors, get_input_errors).
    The engine is a Section variable: [sim] runs ONE simulation (text up to END) on an engine state
    and returns the new state, the events it emitted and whether it ended normally (false = an error
    with STOP aborted the call); [load] reads a database into the freshly initialised engine. *)
From Coq Require Import List ZArith String Bool Lia.
Import ListNotations.
Local Open Scope list_scope.
Local Open Scope Z_scope.

Section Run.
Variable E : Type.                 (* engine state (class Phreeqc) *)
Variable ev : Type.                (* engine -> io events *)
Variable S : Type.                 (* settings that survive a load: output switches, user-set file names *)
Variable sim : E -> string -> bool -> E * list ev * bool.
   (* sim e text first_of_call = (e', events, completed) ; first_of_call: do_run forces headings *)
Variable fresh : E.                (* clean_up(); init(); do_initialize() *)
Variable load : string -> E * list ev * bool.       (* read_database on [fresh] (+ test_db) *)
Variable n_err : ev -> Z.          (* how much the event adds to the error count (error_msg: >= 1 ; else 0) *)

Record inst := mkI {
  id : Z;
  settings : S;
  loaded : bool;                   (* DatabaseLoaded *)
  eng : E;
  accum : list string;             (* StringInput, one entry per accumulated simulation text *)
  clear_flag : bool;               (* ClearAccumulated *)
  last_events : list ev;           (* what the last call emitted: all strings/tables of the instance are folds of it *)
  last_ret : Z
}.

Definition create (i : Z) (s0 : S) : inst := mkI i s0 false fresh [] false [] 0.

(** do_run: simulations in order; the first of the call forces headings; an aborted simulation ends the call *)
Fixpoint do_run (e : E) (first : bool) (sims : list string) : E * list ev * bool :=
  match sims with
  | [] => (e, [], true)
  | s :: rest =>
      match sim e s first with
      | (e1, ev1, true) => match do_run e1 false rest with (e2, ev2, ok) => (e2, ev1 ++ ev2, ok) end
      | (e1, ev1, false) => (e1, ev1, false)
      end
  end.

Definition errors (evs : list ev) : Z := fold_right (fun e a => n_err e + a) 0 evs.

Inductive call :=
| RunString (sims : list string)
| RunFile (sims : option (list string))      (* None = file cannot be opened *)
| AccumulateSim (text : string)
| ClearAccumulatedLines
| RunAccumulated
| LoadDatabase (text : option string)        (* None = file cannot be opened *)
| SetSettings (f : S -> S).

Variable no_db_event : ev.        (* "Run...: No database is loaded" error *)
Variable no_file_event : ev.      (* "...: Unable to open" error *)

Definition run_sims (i : inst) (sims : list string) (acc : list string) (clr : bool) : inst :=
  if loaded i then
    match do_run (eng i) true sims with
    | (e', evs, _) => mkI (id i) (settings i) true e' acc clr evs (errors evs)
    end
  else mkI (id i) (settings i) false (eng i) acc clr [no_db_event] (errors [no_db_event]).

Definition step (i : inst) (c : call) : inst :=
  match c with
  | RunString sims => run_sims i sims [] false
  | RunFile (Some sims) => run_sims i sims [] false
  | RunFile None =>
      if loaded i then mkI (id i) (settings i) true (eng i) [] false [no_file_event] (errors [no_file_event])
      else mkI (id i) (settings i) false (eng i) [] false [no_db_event] (errors [no_db_event])
  | AccumulateSim t =>
      let base := if clear_flag i then [] else accum i in
      mkI (id i) (settings i) (loaded i) (eng i) (base ++ [t]) false [] (last_ret i)
  | ClearAccumulatedLines => mkI (id i) (settings i) (loaded i) (eng i) [] (clear_flag i) (last_events i) (last_ret i)
  | RunAccumulated => run_sims i (accum i) (accum i) true
  | LoadDatabase (Some text) =>
      match load text with
      | (e', evs, _) => mkI (id i) (settings i) (Z.eqb (errors evs) 0) e' [] false evs (errors evs)
      end
  | LoadDatabase None => mkI (id i) (settings i) false fresh [] false [no_file_event] (errors [no_file_event])
  | SetSettings f => mkI (id i) (f (settings i)) (loaded i) (eng i) (accum i) (clear_flag i) (last_events i) (last_ret i)
  end.

Definition run_calls (i : inst) (cs : list call) : inst := fold_left step cs i.

(** the calls that deliver a piece (a list of simulations) through one of the three entry points *)
Inductive entry := ByString | ByFile | ByAccumulate.
Definition deliver (e : entry) (sims : list string) : list call :=
  match e with
  | ByString => [RunString sims]
  | ByFile => [RunFile (Some sims)]
  | ByAccumulate => map AccumulateSim sims ++ [RunAccumulated]
  end.

End Run.
