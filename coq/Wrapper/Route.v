(** Executable model of the output routing of IPhreeqc (src/IPhreeqc.cpp: output_msg, log_msg,
    error_msg, warning_msg, punch_msg, fpunchf x3, fpunchf_end_row/EndRow, the dump capture and
    the line splitting at the end of do_run) on top of PHRQ_io's file writers
    (src/phreeqcpp/common/PHRQ_io.cpp: output_msg, log_msg, punch_msg, fpunchf, warning_msg).

    The engine is not modelled: a run is the *recorded stream of calls* the engine makes on the
    PHRQ_io interface (events), each with a snapshot of the PHRQ_io flags it depends on.  Texts are
    an abstract chunk type: a sink is the list of chunks it received, in order (the real sink is
    their concatenation). *)
From Coq Require Import List ZArith String Bool Lia.
From IPV.Wrapper Require Import SelOut.
Import ListNotations.
Local Open Scope list_scope.
Local Open Scope Z_scope.

Section Routing.
Variable chunk : Type.
Variable STOPPING : chunk.          (* the literal "Stopping.\n" *)
Variable add_nl : chunk -> chunk.   (* str ++ "\n" as built by warning_msg *)

(** The switch settings of an instance for one run (fields of class IPhreeqc). *)
Record switches := mkSw {
  OutputFileOn : bool; OutputStringOn : bool;
  LogFileOn : bool;    LogStringOn : bool;
  ErrorFileOn : bool;  ErrorStringOn : bool;  ErrorOn : bool;   (* ErrorOn = PHRQ_io::error_on *)
  WarningStringOn : bool;
  SelFileOn : Z -> bool;     (* get_sel_out_file_on(n)   *)
  SelStringOn : Z -> bool    (* get_sel_out_string_on(n) *)
}.

(** One call of the engine on the I/O interface.  [on] flags are PHRQ_io::output_on / log_on /
    punch_on at the time of the call; [fopen] says whether the punch stream of user number [n] is open. *)
Inductive ev :=
| EOut (on : bool) (s : chunk)
| ELog (on : bool) (s : chunk)
| EErr (s : chunk) (stop : bool) (out_on log_on : bool)
| EWarn (s : chunk) (out_on log_on : bool)
| EPunchMsg (n : Z) (on fopen : bool) (s : chunk)
| EPunchVal (n : Z) (on fopen : bool) (name : string) (v : cell) (text : chunk)   (* fpunchf: text = snprintf(format, v) *)
| EEndRow (n : Z) (pending : list string)    (* fpunchf_end_row; pending = user-punch headings not yet punched *)
| ENewTable (n : Z)                          (* do_run creates the table/string of a user number first seen *)
| EPunchOpen (n : Z) (opened : bool).        (* punch_open(n): opened = the file switch of n is on, so a fresh
                                                std::ofstream(name, out) replaces the stream: the file is truncated *)

Record sinks := mkSinks {
  out_s : list chunk; out_f : list chunk;
  log_s : list chunk; log_f : list chunk;
  err_s : list chunk; err_f : list chunk;
  warn_s : list chunk;
  sel_s : list (Z * list chunk);      (* SelectedOutputStringMap *)
  sel_f : list (Z * list chunk);      (* per-user-number punch files *)
  tables : list (Z * so)              (* SelectedOutputMap *)
}.

Definition sinks0 : sinks := mkSinks [] [] [] [] [] [] [] [] [] [].

Fixpoint lookup {A} (n : Z) (m : list (Z * A)) : option A :=
  match m with
  | [] => None
  | (k, v) :: t => if Z.eqb n k then Some v else lookup n t
  end.

Fixpoint update {A} (n : Z) (f : option A -> A) (m : list (Z * A)) : list (Z * A) :=
  match m with
  | [] => [(n, f None)]
  | (k, v) :: t => if Z.eqb n k then (k, f (Some v)) :: t else (k, v) :: update n f t
  end.

Definition app_to (c : chunk) (o : option (list chunk)) : list chunk :=
  match o with Some l => l ++ [c] | None => [c] end.

Definition cond_app (b : bool) (l : list chunk) (c : chunk) := if b then l ++ [c] else l.

Definition out_msg (sw : switches) (on : bool) (c : chunk) (k : sinks) : sinks :=
  mkSinks (cond_app (OutputStringOn sw && on) (out_s k) c) (cond_app (OutputFileOn sw && on) (out_f k) c)
          (log_s k) (log_f k) (err_s k) (err_f k) (warn_s k) (sel_s k) (sel_f k) (tables k).

Definition log_msg (sw : switches) (on : bool) (c : chunk) (k : sinks) : sinks :=
  mkSinks (out_s k) (out_f k)
          (cond_app (LogStringOn sw && on) (log_s k) c) (cond_app (LogFileOn sw && on) (log_f k) c)
          (err_s k) (err_f k) (warn_s k) (sel_s k) (sel_f k) (tables k).

Definition set_err (k : sinks) (es ef : list chunk) : sinks :=
  mkSinks (out_s k) (out_f k) (log_s k) (log_f k) es ef (warn_s k) (sel_s k) (sel_f k) (tables k).

Definition set_warn (k : sinks) (ef ws : list chunk) : sinks :=
  mkSinks (out_s k) (out_f k) (log_s k) (log_f k) (err_s k) ef ws (sel_s k) (sel_f k) (tables k).

Definition table_of (k : sinks) (n : Z) : so :=
  match lookup n (tables k) with Some t => t | None => so_init end.

Definition set_sel (k : sinks) (ss sf : list (Z * list chunk)) (tb : list (Z * so)) : sinks :=
  mkSinks (out_s k) (out_f k) (log_s k) (log_f k) (err_s k) (err_f k) (warn_s k) ss sf tb.

(** IPhreeqc::EndRow: push empties for pending user-punch headings, then CSelectedOutput::EndRow *)
Definition end_row_pending (t : so) (pending : list string) : so :=
  end_row (fold_left (fun t h => push_back t h CEmpty) pending t).

Definition route (sw : switches) (k : sinks) (e : ev) : sinks :=
  match e with
  | EOut on c => out_msg sw on c k
  | ELog on c => log_msg sw on c k
  | EErr c stop oon lon =>
      (* IPhreeqc::error_msg: file, (base with error_on off: counters only), string, "Stopping." *)
      let ef := cond_app (ErrorFileOn sw && ErrorOn sw) (err_f k) c in
      let es := cond_app (ErrorStringOn sw && ErrorOn sw) (err_s k) c in
      let ef := if stop then cond_app (ErrorFileOn sw && ErrorOn sw) ef STOPPING else ef in
      set_err k es ef
  | EWarn c oon lon =>
      (* IPhreeqc::warning_msg -> PHRQ_io::warning_msg (error_on off) -> log_msg, output_msg *)
      let ef := cond_app (ErrorFileOn sw && ErrorOn sw) (err_f k) (add_nl c) in
      let ws := cond_app (WarningStringOn sw) (warn_s k) (add_nl c) in
      out_msg sw oon (add_nl c) (log_msg sw lon (add_nl c) (set_warn k ef ws))
  | EPunchMsg n on fopen c =>
      set_sel k (if SelStringOn sw n && on then update n (app_to c) (sel_s k) else sel_s k)
                (if fopen && on then update n (app_to c) (sel_f k) else sel_f k)
                (tables k)
  | EPunchVal n on fopen name v c =>
      set_sel k (if SelStringOn sw n && on then update n (app_to c) (sel_s k) else sel_s k)
                (if fopen && on then update n (app_to c) (sel_f k) else sel_f k)
                (update n (fun o => push_back (match o with Some t => t | None => so_init end) name v) (tables k))
  | EEndRow n pending =>
      match lookup n (tables k) with
      | Some t => set_sel k (sel_s k) (sel_f k) (update n (fun _ => end_row_pending t pending) (tables k))
      | None => k
      end
  | EPunchOpen n opened =>
      if opened then set_sel k (sel_s k) (update n (fun _ => []) (sel_f k)) (tables k) else k
  | ENewTable n =>
      match lookup n (tables k) with
      | Some _ => k
      | None => set_sel k (update n (fun o => match o with Some l => l | None => [] end) (sel_s k)) (sel_f k)
                        (update n (fun _ => so_init) (tables k))
      end
  end.

Definition consume (sw : switches) (evs : list ev) : sinks := fold_left (route sw) evs sinks0.

Definition sel_string (k : sinks) (n : Z) : list chunk :=
  match lookup n (sel_s k) with Some l => l | None => [] end.
Definition sel_file (k : sinks) (n : Z) : list chunk :=
  match lookup n (sel_f k) with Some l => l | None => [] end.

End Routing.

Arguments EOut {chunk}. Arguments ELog {chunk}. Arguments EErr {chunk}. Arguments EWarn {chunk}.
Arguments EPunchMsg {chunk}. Arguments EPunchVal {chunk}. Arguments EEndRow {chunk}. Arguments ENewTable {chunk}.
Arguments EPunchOpen {chunk}.
