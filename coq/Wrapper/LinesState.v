(** The string / line-vector pair of one output stream of an instance over a call (IPhreeqc.cpp: check_database clears
    both, *_msg appends to the string, the end of do_run splits the string into the line vector; an aborted run skips
    that step).  Formalises finding F9: after a COMPLETED call the line view is the string; after an ABORTED call it is not. *)
From Coq Require Import List String Bool.
From IPV.Wrapper Require Import Lines.
Import ListNotations.
Local Open Scope list_scope.

Record stream := mkS { text : string; lines : list string }.
Definition s0 : stream := mkS EmptyString [].

Inductive sop :=
| SStart                       (* check_database at the start of a Run* call: string and lines cleared *)
| SAppend (chunk : string)     (* output_msg / log_msg / punch_msg with the string switch on *)
| SFinish                      (* end of do_run: lines += getline-split of the string *)
| SAbort.                      (* IPhreeqcStop thrown inside do_run: the splitting code is skipped *)

Definition sstep (s : stream) (o : sop) : stream :=
  match o with
  | SStart => s0
  | SAppend c => mkS (text s ++ c)%string (lines s)
  | SFinish => mkS (text s) (lines s ++ split_lines (text s))
  | SAbort => s
  end.
Definition srun (ops : list sop) : stream := fold_left sstep ops s0.

(** a call = Start, appends, then Finish (completed) or Abort *)
Definition completed_call (chunks : list string) : list sop := SStart :: map SAppend chunks ++ [SFinish].
Definition aborted_call (chunks : list string) : list sop := SStart :: map SAppend chunks ++ [SAbort].

Lemma fold_appends : forall chunks s,
  fold_left sstep (map SAppend chunks) s = mkS (fold_left (fun a c => (a ++ c)%string) chunks (text s)) (lines s).
Proof.
  induction chunks as [|c cs IH]; intros s; simpl.
  - destruct s; reflexivity.
  - rewrite IH. reflexivity.
Qed.

(** after any history, a COMPLETED call leaves the line view equal to the lines of the string *)
Theorem lines_are_string_after_completed_call : forall history chunks,
  let s := fold_left sstep (completed_call chunks) (srun history) in
  lines s = split_lines (text s).
Proof.
  intros history chunks. unfold completed_call. simpl.
  rewrite fold_left_app. rewrite fold_appends. simpl. reflexivity.
Qed.

(** F9: the same statement for an ABORTED call is false: the string holds the text of the call, the line view is empty *)
Theorem lines_are_string_after_aborted_call_refuted :
  exists history chunks, let s := fold_left sstep (aborted_call chunks) (srun history) in
  lines s <> split_lines (text s).
Proof.
  exists [], ["ERROR: x" ++ String nl EmptyString]%string. vm_compute. discriminate.
Qed.
