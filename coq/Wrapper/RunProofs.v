(** Theorems about the call-protocol model (Run.v).  (C04, C07, C08)

    Three of the statements given for this file are FALSE as written (deliver_is_do_run,
    run_chunks_eq_run_whole, accumulate_run_eq_runstring): see the comments at their [_fixed] versions and the
    concrete counterexample [stale_accum_counterexample] at the end of the file.  All other statements are
    proved exactly as given. *)
From Coq Require Import List ZArith String Bool Lia.
From IPV.Wrapper Require Import Run.
Import ListNotations.
Local Open Scope list_scope.
Local Open Scope Z_scope.

Section P.
Variable E ev S : Type.
Variable sim : E -> string -> bool -> E * list ev * bool.
Variable fresh : E.
Variable load : string -> E * list ev * bool.
Variable n_err : ev -> Z.
Variable no_db_event no_file_event : ev.
Notation inst := (inst E ev S).
Notation call := (call S).
Notation step := (step E ev S sim fresh load n_err no_db_event no_file_event).
Notation run_calls := (run_calls E ev S sim fresh load n_err no_db_event no_file_event).
Notation run_sims := (run_sims E ev S sim n_err no_db_event).
Notation do_run := (do_run E ev sim).
Notation deliver := (deliver S).
Notation errors := (errors ev n_err).

(* result-carrying part of an event stream (rows, dump, ...): any projection that distributes over ++ *)
Variable data : list ev -> list ev.
Hypothesis data_app : forall a b, data (a ++ b) = data a ++ data b.
(* ENGINE HYPOTHESIS (tested by the correspondence, it is the substance of C04): whether a simulation is the
   first of its call (forced headings) changes neither the engine state, nor completion, nor the result data *)
Hypothesis first_irrelevant : forall e s,
  fst (fst (sim e s true)) = fst (fst (sim e s false)) /\
  snd (sim e s true) = snd (sim e s false) /\
  data (snd (fst (sim e s true))) = data (snd (fst (sim e s false))).

Definition accum_ok (i : inst) : Prop := accum E ev S i = [] \/ clear_flag E ev S i = true.
Definition completes (e : E) (sims : list string) : Prop := snd (do_run e true sims) = true.

(** * Auxiliary lemmas: data, do_run *)

Lemma data_nil : data [] = [].
Proof.
  pose proof (data_app [] []) as H. simpl in H.
  destruct (data []) as [|x l] eqn:Hd; [reflexivity|].
  apply (f_equal (@List.length ev)) in H. rewrite app_length in H. simpl in H. lia.
Qed.

(* the [first] flag of a do_run matters neither for the engine state, nor for completion, nor for the data *)
Lemma do_run_first : forall sims e,
  fst (fst (do_run e true sims)) = fst (fst (do_run e false sims)) /\
  snd (do_run e true sims) = snd (do_run e false sims) /\
  data (snd (fst (do_run e true sims))) = data (snd (fst (do_run e false sims))).
Proof.
  intros [|s rest] e; simpl; [auto|].
  destruct (first_irrelevant e s) as (He & Hc & Hd).
  destruct (sim e s true) as [[e1 ev1] c1]. destruct (sim e s false) as [[e2 ev2] c2].
  simpl in He, Hc, Hd. subst e2 c2.
  destruct c1.
  - destruct (do_run e1 false rest) as [[e3 ev3] c3]. simpl. rewrite !data_app, Hd. auto.
  - simpl. auto.
Qed.

Lemma do_run_first_any : forall sims e f f',
  fst (fst (do_run e f sims)) = fst (fst (do_run e f' sims)) /\
  snd (do_run e f sims) = snd (do_run e f' sims) /\
  data (snd (fst (do_run e f sims))) = data (snd (fst (do_run e f' sims))).
Proof.
  intros sims e f f'. destruct (do_run_first sims e) as (H1 & H2 & H3).
  destruct f, f'; repeat split; (reflexivity || assumption || (symmetry; assumption)).
Qed.

(* a completing run of [a ++ b] completes on [a] *)
Lemma do_run_prefix : forall a e f b, snd (do_run e f (a ++ b)) = true -> snd (do_run e f a) = true.
Proof.
  induction a as [|s a IH]; intros e f b H; simpl in *; [reflexivity|].
  destruct (sim e s f) as [[e1 ev1] c1]. destruct c1.
  - specialize (IH e1 false b).
    destruct (do_run e1 false (a ++ b)) as [[e2 ev2] c2].
    destruct (do_run e1 false a) as [[e3 ev3] c3]. simpl in *. auto.
  - simpl in H. discriminate.
Qed.

(* KEY LEMMA, the append law: if [a] completes, running [a ++ b] is running [a] and then [b] on the engine state
   left by [a]; the [first] flag [f'] given to [b] is irrelevant for engine state, completion and data *)
Lemma do_run_app : forall a e f f' b, snd (do_run e f a) = true ->
  fst (fst (do_run e f (a ++ b))) = fst (fst (do_run (fst (fst (do_run e f a))) f' b)) /\
  snd (do_run e f (a ++ b)) = snd (do_run (fst (fst (do_run e f a))) f' b) /\
  data (snd (fst (do_run e f (a ++ b)))) =
    data (snd (fst (do_run e f a))) ++ data (snd (fst (do_run (fst (fst (do_run e f a))) f' b))).
Proof.
  induction a as [|s a IH]; intros e f f' b H.
  - simpl. rewrite data_nil. simpl. apply do_run_first_any.
  - simpl in H |- *. destruct (sim e s f) as [[e1 ev1] c1].
    destruct c1; [|simpl in H; discriminate].
    specialize (IH e1 false f' b).
    destruct (do_run e1 false a) as [[e3 ev3] c3]. simpl in H.
    destruct (do_run e1 false (a ++ b)) as [[e2 ev2] c2]. simpl in IH |- *.
    destruct (IH H) as (I1 & I2 & I3). repeat split; auto.
    rewrite !data_app, I3, app_assoc. reflexivity.
Qed.

(** * Auxiliary lemmas: step *)

Lemma run_sims_spec : forall i sims acc clr, loaded E ev S i = true ->
  let i' := run_sims i sims acc clr in
  eng E ev S i' = fst (fst (do_run (eng E ev S i) true sims)) /\
  last_events E ev S i' = snd (fst (do_run (eng E ev S i) true sims)) /\
  last_ret E ev S i' = errors (snd (fst (do_run (eng E ev S i) true sims))) /\
  loaded E ev S i' = true /\ accum E ev S i' = acc /\ clear_flag E ev S i' = clr /\
  settings E ev S i' = settings E ev S i /\ id E ev S i' = id E ev S i.
Proof.
  intros i sims acc clr Hl. unfold Run.run_sims. rewrite Hl.
  destruct (do_run (eng E ev S i) true sims) as [[e' evs] ok]. simpl. repeat split.
Qed.

Lemma accumulate_sims : forall sims i, clear_flag E ev S i = false ->
  let i' := run_calls i (map (AccumulateSim S) sims) in
  accum E ev S i' = accum E ev S i ++ sims /\ clear_flag E ev S i' = false /\
  eng E ev S i' = eng E ev S i /\ loaded E ev S i' = loaded E ev S i /\
  settings E ev S i' = settings E ev S i /\ id E ev S i' = id E ev S i.
Proof.
  unfold Run.run_calls.
  induction sims as [|t sims IH]; intros i Hc; cbn [map fold_left].
  - rewrite app_nil_r. repeat split. assumption.
  - destruct (IH (step i (AccumulateSim S t)) eq_refl) as (I1 & I2 & I3 & I4 & I5 & I6).
    rewrite I1, I2, I3, I4, I5, I6. simpl. rewrite Hc, <- app_assoc. simpl.
    repeat split.
Qed.

(* full description of the instance after delivering one piece (also tracks the accumulation buffer) *)
Lemma deliver_full : forall (en : entry) sims i, loaded E ev S i = true -> accum_ok i ->
  (en = ByAccumulate -> sims = [] -> accum E ev S i = []) ->
  let i' := run_calls i (deliver en sims) in
  eng E ev S i' = fst (fst (do_run (eng E ev S i) true sims)) /\
  last_events E ev S i' = snd (fst (do_run (eng E ev S i) true sims)) /\
  last_ret E ev S i' = errors (snd (fst (do_run (eng E ev S i) true sims))) /\
  loaded E ev S i' = true /\ accum_ok i' /\ settings E ev S i' = settings E ev S i /\ id E ev S i' = id E ev S i /\
  accum E ev S i' = match en with ByAccumulate => sims | _ => [] end.
Proof.
  intros en sims i Hl Hok Hne.
  destruct en.
  - (* ByString *)
    unfold Run.run_calls. simpl.
    destruct (run_sims_spec i sims [] false Hl) as (R1 & R2 & R3 & R4 & R5 & R6 & R7 & R8).
    unfold accum_ok. repeat split; auto.
  - (* ByFile *)
    unfold Run.run_calls. simpl.
    destruct (run_sims_spec i sims [] false Hl) as (R1 & R2 & R3 & R4 & R5 & R6 & R7 & R8).
    unfold accum_ok. repeat split; auto.
  - (* ByAccumulate *)
    assert (Hgen : forall j, loaded E ev S j = true -> eng E ev S j = eng E ev S i ->
              settings E ev S j = settings E ev S i -> id E ev S j = id E ev S i -> accum E ev S j = sims ->
              let i' := step j (RunAccumulated S) in
              eng E ev S i' = fst (fst (do_run (eng E ev S i) true sims)) /\
              last_events E ev S i' = snd (fst (do_run (eng E ev S i) true sims)) /\
              last_ret E ev S i' = errors (snd (fst (do_run (eng E ev S i) true sims))) /\
              loaded E ev S i' = true /\ accum_ok i' /\ settings E ev S i' = settings E ev S i /\
              id E ev S i' = id E ev S i /\ accum E ev S i' = sims).
    { intros j Hlj Hej Hsj Hij Haj. simpl.
      destruct (run_sims_spec j (accum E ev S j) (accum E ev S j) true Hlj)
        as (R1 & R2 & R3 & R4 & R5 & R6 & R7 & R8).
      rewrite Haj, Hej in *. unfold accum_ok. rewrite Hsj, Hij in *. repeat split; auto. }
    unfold Run.run_calls, Run.deliver. rewrite fold_left_app. cbn [fold_left].
    destruct sims as [|t sims'].
    + cbn [map fold_left]. apply Hgen; auto.
    + cbn [map fold_left].
      set (i1 := step i (AccumulateSim S t)).
      assert (Hc1 : clear_flag E ev S i1 = false) by reflexivity.
      assert (Ha1 : accum E ev S i1 = [t]).
      { unfold i1. simpl. destruct Hok as [Ha | Hc].
        - rewrite Ha. destruct (clear_flag E ev S i); reflexivity.
        - rewrite Hc. reflexivity. }
      destruct (accumulate_sims sims' i1 Hc1) as (A1 & A2 & A3 & A4 & A5 & A6).
      unfold Run.run_calls in A1, A2, A3, A4, A5, A6.
      apply Hgen.
      * rewrite A4. exact Hl.
      * rewrite A3. reflexivity.
      * rewrite A5. reflexivity.
      * rewrite A6. reflexivity.
      * rewrite A1, Ha1. reflexivity.
Qed.

(** * deliver_is_do_run

    FALSE as given (no premise on [sims] / the stale buffer).  Counterexample: [en = ByAccumulate], [sims = []] and an
    instance that satisfies [accum_ok] through [clear_flag = true] with a NON-EMPTY stale buffer (the state right
    after a RunAccumulated of a non-empty buffer).  [deliver ByAccumulate [] = [RunAccumulated]] then RE-RUNS the
    old buffer (as IPhreeqc does: RunAccumulated only sets ClearAccumulated, StringInput is kept until the next
    AccumulateLine), whereas [do_run e true [] = (e, [], true)].  See [stale_accum_counterexample] below.
    Fixed version: the weakest extra premise, [en = ByAccumulate -> sims = [] -> accum i = []]
    (implied by [sims <> []], and by [en <> ByAccumulate]). *)
Theorem deliver_is_do_run_fixed : forall (en : entry) sims i, loaded E ev S i = true -> accum_ok i ->
  (en = ByAccumulate -> sims = [] -> accum E ev S i = []) ->
  let i' := run_calls i (deliver en sims) in
  eng E ev S i' = fst (fst (do_run (eng E ev S i) true sims)) /\
  last_events E ev S i' = snd (fst (do_run (eng E ev S i) true sims)) /\
  last_ret E ev S i' = errors (snd (fst (do_run (eng E ev S i) true sims))) /\
  loaded E ev S i' = true /\ accum_ok i' /\ settings E ev S i' = settings E ev S i /\ id E ev S i' = id E ev S i.
Proof.
  intros en sims i Hl Hok Hne.
  destruct (deliver_full en sims i Hl Hok Hne) as (D1 & D2 & D3 & D4 & D5 & D6 & D7 & D8).
  repeat split; assumption.
Qed.

(* the same with the simpler premise [sims <> []] *)
Corollary deliver_is_do_run_nonempty : forall (en : entry) sims i, loaded E ev S i = true -> accum_ok i ->
  sims <> [] ->
  let i' := run_calls i (deliver en sims) in
  eng E ev S i' = fst (fst (do_run (eng E ev S i) true sims)) /\
  last_events E ev S i' = snd (fst (do_run (eng E ev S i) true sims)) /\
  last_ret E ev S i' = errors (snd (fst (do_run (eng E ev S i) true sims))) /\
  loaded E ev S i' = true /\ accum_ok i' /\ settings E ev S i' = settings E ev S i /\ id E ev S i' = id E ev S i.
Proof.
  intros en sims i Hl Hok Hne. apply deliver_is_do_run_fixed; auto.
  intros _ Hs. contradiction.
Qed.

(* running pieces one call at a time, collecting the result data of every call *)
Fixpoint run_pieces (i : inst) (pieces : list (entry * list string)) : inst * list ev :=
  match pieces with
  | [] => (i, [])
  | (en, sims) :: rest =>
      let i' := run_calls i (deliver en sims) in
      let (i'', d) := run_pieces i' rest in (i'', data (last_events E ev S i') ++ d)
  end.

(* [pieces_ok acc pieces]: no EMPTY piece is delivered by ByAccumulate while the accumulation buffer ([acc], then
   the simulations of the last ByAccumulate piece; RunString / RunFile empty it) is non-empty *)
Fixpoint pieces_ok (acc : list string) (pieces : list (entry * list string)) : Prop :=
  match pieces with
  | [] => True
  | (ByAccumulate, sims) :: rest => (sims = [] -> acc = []) /\ pieces_ok sims rest
  | (_, _) :: rest => pieces_ok [] rest
  end.

Lemma run_pieces_do_run : forall pieces i, loaded E ev S i = true -> accum_ok i ->
  pieces_ok (accum E ev S i) pieces ->
  completes (eng E ev S i) (List.concat (map snd pieces)) ->
  eng E ev S (fst (run_pieces i pieces)) = fst (fst (do_run (eng E ev S i) true (List.concat (map snd pieces)))) /\
  snd (run_pieces i pieces) = data (snd (fst (do_run (eng E ev S i) true (List.concat (map snd pieces))))).
Proof.
  unfold completes.
  induction pieces as [|[en sims] rest IH]; intros i Hl Hok Hp Hc.
  - simpl. rewrite data_nil. auto.
  - simpl map in Hc |- *. simpl List.concat in Hc |- *. simpl run_pieces.
    assert (Hne : en = ByAccumulate -> sims = [] -> accum E ev S i = []).
    { intros He Hs. subst en. simpl in Hp. destruct Hp as [Hp _]. auto. }
    destruct (deliver_full en sims i Hl Hok Hne) as (D1 & D2 & D3 & D4 & D5 & D6 & D7 & D8).
    set (i' := run_calls i (deliver en sims)) in *.
    pose proof (do_run_prefix _ _ _ _ Hc) as Hca.
    destruct (do_run_app sims (eng E ev S i) true true (List.concat (map snd rest)) Hca) as (P1 & P2 & P3).
    rewrite <- D1 in P1, P2, P3.
    assert (Hp' : pieces_ok (accum E ev S i') rest).
    { rewrite D8. destruct en; simpl in Hp; try exact Hp. destruct Hp as [_ Hp]. exact Hp. }
    assert (Hc' : snd (do_run (eng E ev S i') true (List.concat (map snd rest))) = true).
    { rewrite <- P2. exact Hc. }
    destruct (IH i' D4 D5 Hp' Hc') as (J1 & J2).
    destruct (run_pieces i' rest) as [i'' d]. simpl in J1, J2 |- *.
    split.
    + rewrite J1, P1. reflexivity.
    + rewrite P3, J2, D2. reflexivity.
Qed.

(** * run_chunks_eq_run_whole (C04)

    FALSE as given, for the same reason as deliver_is_do_run: an EMPTY piece delivered by ByAccumulate while the
    accumulation buffer is non-empty (initially with [clear_flag = true], or after an earlier non-empty
    ByAccumulate piece) re-runs the stale buffer.  E.g. [pieces = [(ByAccumulate, [s]); (ByAccumulate, [])]] runs [s]
    twice whereas the whole input is [[s]].  Empty pieces delivered by ByString / ByFile are harmless, and so is
    the forced-headings flag of each call (only [data] is compared; [first_irrelevant]).
    Fixed version: extra premise [pieces_ok (accum i) pieces] (exactly "no empty ByAccumulate piece on a
    non-empty buffer"); [completes] is needed as given. *)
Theorem run_chunks_eq_run_whole_fixed : forall pieces i, loaded E ev S i = true -> accum_ok i ->
  pieces_ok (accum E ev S i) pieces ->
  completes (eng E ev S i) (List.concat (map snd pieces)) ->
  let whole := run_calls i [RunString S (List.concat (map snd pieces))] in
  eng E ev S (fst (run_pieces i pieces)) = eng E ev S whole /\
  snd (run_pieces i pieces) = data (last_events E ev S whole).
Proof.
  intros pieces i Hl Hok Hp Hc. unfold Run.run_calls. simpl.
  destruct (run_sims_spec i (List.concat (map snd pieces)) [] false Hl) as (R1 & R2 & _).
  rewrite R1, R2. apply run_pieces_do_run; assumption.
Qed.

(* the same with the simpler premise: no piece delivered by ByAccumulate is empty *)
Lemma pieces_ok_nonempty : forall pieces acc,
  (forall sims, In (ByAccumulate, sims) pieces -> sims <> []) -> pieces_ok acc pieces.
Proof.
  induction pieces as [|[en sims] rest IH]; intros acc H; simpl; [exact I|].
  assert (Hr : forall sims0, In (ByAccumulate, sims0) rest -> sims0 <> []).
  { intros sims0 Hin. apply H. right. exact Hin. }
  destruct en; try (apply IH; exact Hr).
  split; [|apply IH; exact Hr].
  intros Hs. exfalso. apply (H sims); [left; reflexivity | exact Hs].
Qed.

Corollary run_chunks_eq_run_whole_nonempty : forall pieces i, loaded E ev S i = true -> accum_ok i ->
  (forall sims, In (ByAccumulate, sims) pieces -> sims <> []) ->
  completes (eng E ev S i) (List.concat (map snd pieces)) ->
  let whole := run_calls i [RunString S (List.concat (map snd pieces))] in
  eng E ev S (fst (run_pieces i pieces)) = eng E ev S whole /\
  snd (run_pieces i pieces) = data (last_events E ev S whole).
Proof.
  intros pieces i Hl Hok Hne Hc. apply run_chunks_eq_run_whole_fixed; auto.
  apply pieces_ok_nonempty. exact Hne.
Qed.

(** * accumulate_run_eq_runstring

    FALSE as given for [sims = []] on a stale non-empty buffer (same counterexample).
    Fixed version: extra premise [sims = [] -> accum i = []]. *)
Theorem accumulate_run_eq_runstring_fixed : forall sims i, loaded E ev S i = true -> accum_ok i ->
  (sims = [] -> accum E ev S i = []) ->
  let a := run_calls i (deliver ByAccumulate sims) in let b := run_calls i (deliver ByString sims) in
  eng E ev S a = eng E ev S b /\ last_events E ev S a = last_events E ev S b /\ last_ret E ev S a = last_ret E ev S b.
Proof.
  intros sims i Hl Hok Hne.
  destruct (deliver_full ByAccumulate sims i Hl Hok (fun _ => Hne)) as (A1 & A2 & A3 & _).
  assert (Hb : ByString = ByAccumulate -> sims = [] -> accum E ev S i = []) by (intros Hd; discriminate Hd).
  destruct (deliver_full ByString sims i Hl Hok Hb) as (B1 & B2 & B3 & _).
  cbv zeta. rewrite A1, A2, A3, B1, B2, B3. repeat split.
Qed.

(* definitions persist: only LoadDatabase replaces the engine; every other call either leaves it or runs simulations on it *)
Lemma run_sims_eng : forall i sims acc clr,
  eng E ev S (run_sims i sims acc clr) = eng E ev S i \/
  eng E ev S (run_sims i sims acc clr) = fst (fst (do_run (eng E ev S i) true sims)).
Proof.
  intros i sims acc clr. unfold Run.run_sims.
  destruct (loaded E ev S i).
  - right. destruct (do_run (eng E ev S i) true sims) as [[e' evs] ok]. reflexivity.
  - left. reflexivity.
Qed.

Theorem definitions_persist : forall i c, (forall t, c <> LoadDatabase S t) ->
  eng E ev S (step i c) = eng E ev S i \/ exists sims, eng E ev S (step i c) = fst (fst (do_run (eng E ev S i) true sims)).
Proof.
  intros i c Hc. destruct c as [sims | [sims|] | t | | | t | f]; simpl.
  - destruct (run_sims_eng i sims [] false) as [H | H]; [left | right; exists sims]; exact H.
  - destruct (run_sims_eng i sims [] false) as [H | H]; [left | right; exists sims]; exact H.
  - left. destruct (loaded E ev S i); reflexivity.
  - left. reflexivity.
  - left. reflexivity.
  - destruct (run_sims_eng i (accum E ev S i) (accum E ev S i) true) as [H | H];
      [left | right; exists (accum E ev S i)]; exact H.
  - exfalso. apply (Hc t). reflexivity.
  - left. reflexivity.
Qed.

(* C07: the instance after a load is a function of id, surviving settings and the database text ONLY *)
Theorem load_forgets_history : forall i1 i2 t, id E ev S i1 = id E ev S i2 -> settings E ev S i1 = settings E ev S i2 ->
  step i1 (LoadDatabase S t) = step i2 (LoadDatabase S t).
Proof.
  intros i1 i2 t Hi Hs. destruct t as [text|]; simpl.
  - destruct (load text) as [[e' evs] ok]. rewrite Hi, Hs. reflexivity.
  - rewrite Hi, Hs. reflexivity.
Qed.

Lemma run_sims_id : forall i sims acc clr, id E ev S (run_sims i sims acc clr) = id E ev S i.
Proof.
  intros i sims acc clr. unfold Run.run_sims. destruct (loaded E ev S i); [|reflexivity].
  destruct (do_run (eng E ev S i) true sims) as [[e' evs] ok]. reflexivity.
Qed.

Lemma run_sims_settings : forall i sims acc clr, settings E ev S (run_sims i sims acc clr) = settings E ev S i.
Proof.
  intros i sims acc clr. unfold Run.run_sims. destruct (loaded E ev S i); [|reflexivity].
  destruct (do_run (eng E ev S i) true sims) as [[e' evs] ok]. reflexivity.
Qed.

Lemma step_id : forall i c, id E ev S (step i c) = id E ev S i.
Proof.
  intros i c. destruct c as [sims | [sims|] | t | | | [text|] | f]; simpl;
    try apply run_sims_id; try reflexivity.
  - destruct (loaded E ev S i); reflexivity.
  - destruct (load text) as [[e' evs] ok]. reflexivity.
Qed.

Lemma run_calls_id : forall cs i, id E ev S (run_calls i cs) = id E ev S i.
Proof.
  unfold Run.run_calls. induction cs as [|c cs IH]; intros i; simpl; [reflexivity|].
  rewrite IH. apply step_id.
Qed.

Theorem load_after_any_history_eq_fresh : forall h k s0 t cs,
  let i := run_calls (create E ev S fresh k s0) h in
  run_calls (step i (LoadDatabase S t)) cs = run_calls (step (create E ev S fresh k (settings E ev S i)) (LoadDatabase S t)) cs.
Proof.
  intros h k s0 t cs i. f_equal. apply load_forgets_history.
  - unfold i. rewrite run_calls_id. reflexivity.
  - reflexivity.
Qed.

Theorem only_id_and_settings_survive_load : forall i t,
  id E ev S (step i (LoadDatabase S t)) = id E ev S i /\ settings E ev S (step i (LoadDatabase S t)) = settings E ev S i.
Proof.
  intros i [text|]; simpl.
  - destruct (load text) as [[e' evs] ok]. split; reflexivity.
  - split; reflexivity.
Qed.

(* C08: return value and error record *)
Hypothesis n_err_nonneg : forall e, 0 <= n_err e.
Definition is_run_or_load (c : call) : bool :=
  match c with RunString _ _ | RunFile _ _ | RunAccumulated _ | LoadDatabase _ _ => true | _ => false end.

Lemma errors_nonneg : forall evs, 0 <= errors evs.
Proof.
  induction evs as [|x evs IH]; simpl; [lia|].
  pose proof (n_err_nonneg x) as Hx. lia.
Qed.

Theorem errors_nonzero_iff : forall evs, errors evs <> 0 <-> exists e, In e evs /\ 0 < n_err e.
Proof.
  induction evs as [|x evs IH]; simpl.
  - split; [intros H; contradiction H; reflexivity | intros (e & [] & _)].
  - pose proof (n_err_nonneg x) as Hx. pose proof (errors_nonneg evs) as He.
    split.
    + intros H. destruct (Z.eq_dec (n_err x) 0) as [Hz | Hz].
      * assert (Hr : errors evs <> 0) by lia.
        apply IH in Hr. destruct Hr as (e & Hin & Hpos). exists e. split; [right; exact Hin | exact Hpos].
      * exists x. split; [left; reflexivity | lia].
    + intros (e & [Heq | Hin] & Hpos).
      * subst e. lia.
      * assert (Hr : errors evs <> 0) by (apply IH; exists e; split; assumption). lia.
Qed.

Lemma run_sims_ret : forall i sims acc clr,
  last_ret E ev S (run_sims i sims acc clr) = errors (last_events E ev S (run_sims i sims acc clr)).
Proof.
  intros i sims acc clr. unfold Run.run_sims. destruct (loaded E ev S i); [|reflexivity].
  destruct (do_run (eng E ev S i) true sims) as [[e' evs] ok]. reflexivity.
Qed.

Lemma step_ret : forall i c, is_run_or_load c = true ->
  last_ret E ev S (step i c) = errors (last_events E ev S (step i c)).
Proof.
  intros i c Hc. destruct c as [sims | [sims|] | t | | | [text|] | f]; simpl in Hc |- *;
    try discriminate Hc; try apply run_sims_ret.
  - destruct (loaded E ev S i); reflexivity.
  - destruct (load text) as [[e' evs] ok]. reflexivity.
  - reflexivity.
Qed.

Theorem nonzero_iff_error_recorded : forall i c, is_run_or_load c = true ->
  (last_ret E ev S (step i c) <> 0 <-> exists e, In e (last_events E ev S (step i c)) /\ 0 < n_err e).
Proof.
  intros i c Hc. rewrite (step_ret i c Hc). apply errors_nonzero_iff.
Qed.

(* the record of a call does not depend on what earlier calls recorded *)
Theorem record_describes_this_call_only : forall i evs r c, is_run_or_load c = true ->
  let i' := mkI E ev S (id E ev S i) (settings E ev S i) (loaded E ev S i) (eng E ev S i) (accum E ev S i) (clear_flag E ev S i) evs r in
  last_events E ev S (step i' c) = last_events E ev S (step i c) /\ last_ret E ev S (step i' c) = last_ret E ev S (step i c).
Proof.
  intros i evs r c Hc.
  destruct c as [sims | [sims|] | t | | | [text|] | f]; simpl in Hc |- *;
    try discriminate Hc; unfold Run.run_sims; simpl; split; reflexivity.
Qed.

(* every call returns (the model is total) and leaves the instance usable: a later load gives the fresh state whatever failed before.
   (The given statement also quantified over an unused [s0], whose type cannot be inferred: dropped.) *)
Theorem failed_call_then_load_is_fresh : forall i c t cs k, id E ev S i = k ->
  run_calls (step (step i c) (LoadDatabase S t)) cs =
  run_calls (step (create E ev S fresh k (settings E ev S (step i c))) (LoadDatabase S t)) cs.
Proof.
  intros i c t cs k Hk. f_equal. apply load_forgets_history.
  - rewrite step_id. exact Hk.
  - reflexivity.
Qed.

Theorem run_keeps_accum_ok_and_loaded : forall i c, accum_ok i -> (forall t, c <> AccumulateSim S t) -> c <> ClearAccumulatedLines S ->
  (forall t, c <> LoadDatabase S t) -> (forall f, c <> SetSettings S f) ->
  accum_ok (step i c) /\ loaded E ev S (step i c) = loaded E ev S i.
Proof.
  intros i c Hok Ha Hcl Hld Hset. unfold accum_ok.
  destruct c as [sims | [sims|] | t | | | t | f]; simpl.
  - unfold Run.run_sims. destruct (loaded E ev S i); [|simpl; auto].
    destruct (do_run (eng E ev S i) true sims) as [[e' evs] ok]. simpl. auto.
  - unfold Run.run_sims. destruct (loaded E ev S i); [|simpl; auto].
    destruct (do_run (eng E ev S i) true sims) as [[e' evs] ok]. simpl. auto.
  - destruct (loaded E ev S i); simpl; auto.
  - exfalso. apply (Ha t). reflexivity.
  - exfalso. apply Hcl. reflexivity.
  - unfold Run.run_sims. destruct (loaded E ev S i); [|simpl; auto].
    destruct (do_run (eng E ev S i) true (accum E ev S i)) as [[e' evs] ok]. simpl. auto.
  - exfalso. apply (Hld t). reflexivity.
  - exfalso. apply (Hset f). reflexivity.
Qed.
End P.

(** * Counterexample to the three statements without the stale-buffer premise.
    Engine: state = number of simulations run so far, no events, always completes (so [first_irrelevant] and
    [completes] hold trivially, with [data := fun x => x]).  Instance: loaded, buffer [["s"]] with
    [clear_flag = true] (the state right after RunAccumulated), hence [accum_ok].  Delivering the EMPTY piece by
    ByAccumulate re-runs the stale buffer: engine state 1, whereas do_run on [[]] (and RunString []) leaves 0. *)
Section Counterexample.
Let csim (e : nat) (s : string) (f : bool) : nat * list unit * bool := (Datatypes.S e, [], true).
Let cload (s : string) : nat * list unit * bool := (O, [], true).
Let ci : inst nat unit unit := mkI nat unit unit 0 tt true O ["s"%string] true [] 0.

Example stale_accum_counterexample :
  loaded nat unit unit ci = true /\
  (accum nat unit unit ci = [] \/ clear_flag nat unit unit ci = true) /\
  (forall e s, fst (fst (csim e s true)) = fst (fst (csim e s false)) /\
               snd (csim e s true) = snd (csim e s false) /\
               snd (fst (csim e s true)) = snd (fst (csim e s false))) /\
  snd (do_run nat unit csim (eng nat unit unit ci) true []) = true /\
  eng nat unit unit (run_calls nat unit unit csim O cload (fun _ => 0) tt tt ci (deliver unit ByAccumulate [])) = 1%nat /\
  fst (fst (do_run nat unit csim (eng nat unit unit ci) true [])) = 0%nat /\
  eng nat unit unit (run_calls nat unit unit csim O cload (fun _ => 0) tt tt ci (deliver unit ByString [])) = 0%nat.
Proof.
  repeat split; auto.
Qed.
End Counterexample.

Print Assumptions deliver_is_do_run_fixed.
Print Assumptions deliver_is_do_run_nonempty.
Print Assumptions run_chunks_eq_run_whole_fixed.
Print Assumptions run_chunks_eq_run_whole_nonempty.
Print Assumptions accumulate_run_eq_runstring_fixed.
Print Assumptions definitions_persist.
Print Assumptions load_forgets_history.
Print Assumptions load_after_any_history_eq_fresh.
Print Assumptions only_id_and_settings_survive_load.
Print Assumptions errors_nonzero_iff.
Print Assumptions nonzero_iff_error_recorded.
Print Assumptions record_describes_this_call_only.
Print Assumptions failed_call_then_load_is_fresh.
Print Assumptions run_keeps_accum_ok_and_loaded.
Print Assumptions stale_accum_counterexample.
