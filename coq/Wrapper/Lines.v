(** Line views of a string sink.  Models the loops
      std::istringstream iss(S); while (std::getline(iss, line)) Lines.push_back(line);
    in IPhreeqc::do_run / update_errors, and the accessors Get*StringLine(n) / Get*StringLineCount(). *)
From Coq Require Import List ZArith String Ascii Bool Lia.
Import ListNotations.
Local Open Scope list_scope.

Definition nl : ascii := "010"%char.

(** [split_aux cur s]: [cur] = characters of the current line so far (reversed) *)
Fixpoint rev_string (l : list ascii) (acc : string) : string :=
  match l with [] => acc | c :: t => rev_string t (String c acc) end.

Fixpoint split_aux (cur : list ascii) (s : string) : list string :=
  match s with
  | EmptyString => match cur with [] => [] | _ => [rev_string cur EmptyString] end
  | String c rest =>
      if Ascii.eqb c nl then rev_string cur EmptyString :: split_aux [] rest
      else split_aux (c :: cur) rest
  end.

(** std::getline semantics: a final line without terminator is delivered, an empty tail is not *)
Definition split_lines (s : string) : list string := split_aux [] s.

Definition line_count (s : string) : Z := Z.of_nat (List.length (split_lines s)).

(** Get*StringLine(n): "" outside 0..count-1 *)
Definition get_line (s : string) (n : Z) : string :=
  if (n <? 0)%Z || (line_count s <=? n)%Z then EmptyString
  else nth (Z.to_nat n) (split_lines s) EmptyString.

Fixpoint unlines (l : list string) : string :=
  match l with [] => EmptyString | h :: t => (h ++ String nl (unlines t))%string end.
