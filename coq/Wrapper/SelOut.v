(** Executable model of CSelectedOutput (src/CSelectedOutput.cpp) and of VAR (src/Var.h).
    Column-major table: [heads] = m_vecVarHeadings, [cols] = m_arrayVar, [nrow] = m_nRowCount.
    m_mapHeadingToCol is the index of the heading in [heads] (proved consistent by [Inv]: headings
    are duplicate-free, so std::map::find and first-occurrence lookup coincide). *)
From Coq Require Import List ZArith String Bool Lia.
Import ListNotations.
Local Open Scope list_scope.
Local Open Scope Z_scope.

(** VAR: TT_EMPTY | TT_ERROR vresult | TT_LONG | TT_DOUBLE (the 64 IEEE bits, opaque) | TT_STRING *)
Inductive cell :=
| CEmpty
| CErr (vresult : Z)
| CLong (l : Z)
| CDbl (bits : Z)
| CStr (s : string).

Definition VR_OK := 0.
Definition VR_OUTOFMEMORY := -1.
Definition VR_BADVARTYPE := -2.
Definition VR_INVALIDARG := -3.
Definition VR_INVALIDROW := -4.
Definition VR_INVALIDCOL := -5.

Record so := mkSO { nrow : nat; heads : list string; cols : list (list cell) }.

Definition so_init : so := mkSO 0 [] [].

(** index of a key in the heading list (models m_mapHeadingToCol.find) *)
Fixpoint index_of (k : string) (l : list string) : option nat :=
  match l with
  | [] => None
  | h :: t => if String.eqb k h then Some O else option_map S (index_of k t)
  end.

(** std::vector::resize(n) with default-constructed (empty) VARs; only ever grows here *)
Definition pad (n : nat) (c : list cell) : list cell := c ++ repeat CEmpty (n - List.length c).

Fixpoint set_nth {A} (n : nat) (x : A) (l : list A) : list A :=
  match l, n with
  | [], _ => []
  | _ :: t, O => x :: t
  | h :: t, S m => h :: set_nth m x t
  end.

Fixpoint upd_nth {A} (n : nat) (f : A -> A) (l : list A) : list A :=
  match l, n with
  | [], _ => []
  | h :: t, O => f h :: t
  | h :: t, S m => h :: upd_nth m f t
  end.

(** CSelectedOutput::PushBack(key, var) *)
Definition push_col (nr : nat) (v : cell) (c : list cell) : list cell :=
  if Nat.eqb (List.length c) nr then c ++ [v]      (* push_back *)
  else set_nth nr v c.                          (* .at(m_nRowCount) = var  (size = nrow+1 by Inv) *)

Definition push_back (s : so) (key : string) (v : cell) : so :=
  match index_of key (heads s) with
  | None =>
      mkSO (nrow s) (heads s ++ [key]) (cols s ++ [pad (nrow s) [] ++ [v]])
  | Some j =>
      mkSO (nrow s) (heads s) (upd_nth j (push_col (nrow s) v) (cols s))
  end.

(** CSelectedOutput::EndRow *)
Definition end_row (s : so) : so :=
  match heads s with
  | [] => s
  | _ => mkSO (S (nrow s)) (heads s) (map (pad (S (nrow s))) (cols s))
  end.

(** CSelectedOutput::Clear *)
Definition clear (s : so) : so := so_init.

Definition col_count (s : so) : Z := Z.of_nat (List.length (heads s)).
Definition row_count (s : so) : Z :=
  match heads s with [] => 0 | _ => Z.of_nat (nrow s) + 1 end.

(** CSelectedOutput::Get(nRow, nCol, pVAR): returns (VRESULT, resulting VAR) *)
Definition get (s : so) (r c : Z) : Z * cell :=
  if (r <? 0) || (row_count s <=? r) then (VR_INVALIDROW, CErr VR_INVALIDROW)
  else if (c <? 0) || (col_count s <=? c) then (VR_INVALIDCOL, CErr VR_INVALIDCOL)
  else if r =? 0 then (VR_OK, CStr (nth (Z.to_nat c) (heads s) EmptyString))
  else (VR_OK, nth (Z.to_nat r - 1) (nth (Z.to_nat c) (cols s) []) CEmpty).

(** Operations as data, for sequences *)
Inductive op :=
| OPush (key : string) (v : cell)
| OEndRow
| OClear.

Definition step (s : so) (o : op) : so :=
  match o with
  | OPush k v => push_back s k v
  | OEndRow => end_row s
  | OClear => clear s
  end.

Definition run (ops : list op) : so := fold_left step ops so_init.
