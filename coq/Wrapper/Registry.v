(** Executable model of the instance registry (IPhreeqc::Instances / InstancesIndex, IPhreeqcLib::
    CreateIPhreeqc / DestroyIPhreeqc / GetInstance) and of the switch / file-name store of an instance
    (IPhreeqc::Set* / Get*, constructor defaults, create_file_name, sel_file_name), seen through the
    three bindings: C (IPhreeqcLib.cpp), C++ methods, Fortran binding (IPhreeqc_interface_F.cpp). *)
From Coq Require Import List ZArith String Ascii Bool Lia.
Import ListNotations.
Local Open Scope list_scope.
Local Open Scope Z_scope.

Definition IPQ_OK := 0.
Definition IPQ_BADINSTANCE := -6.
Definition IPQ_INVALIDARG := -3.

(** decimal rendering of a non-negative id (ostream << size_t); fuel = number of digits is enough *)
Definition digit (d : Z) : ascii := ascii_of_nat (48 + Z.to_nat d).
Fixpoint dec_aux (fuel : nat) (n : Z) (acc : string) : string :=
  match fuel with
  | O => acc
  | S f => let acc' := String (digit (n mod 10)) acc in
           if n / 10 =? 0 then acc' else dec_aux f (n / 10) acc'
  end.
Definition dec (n : Z) : string := dec_aux 20 n EmptyString.

(** the five plain streams and their switches *)
Inductive sw := OutputFile | OutputString | LogFile | LogString | ErrorFile | ErrorString | ErrorOn | DumpFile | DumpString.
Inductive nm := NOutput | NLog | NError | NDump.

Definition sw_eqb (a b : sw) : bool :=
  match a, b with
  | OutputFile, OutputFile | OutputString, OutputString | LogFile, LogFile | LogString, LogString
  | ErrorFile, ErrorFile | ErrorString, ErrorString | ErrorOn, ErrorOn | DumpFile, DumpFile | DumpString, DumpString => true
  | _, _ => false
  end.
Definition nm_eqb (a b : nm) : bool :=
  match a, b with NOutput, NOutput | NLog, NLog | NError, NError | NDump, NDump => true | _, _ => false end.

Record inst := mkInst {
  i_id : Z;
  i_sw : sw -> bool;
  i_name : nm -> string;
  i_cur : Z;                              (* CurrentSelectedOutputUserNumber *)
  i_self : list (Z * bool);               (* SelectedOutputFileOnMap *)
  i_sels : list (Z * bool);               (* SelectedOutputStringOn *)
  i_seln : list (Z * string)              (* SelectedOutputFileNameMap *)
}.

Definition default_sw (s : sw) : bool := match s with ErrorString | ErrorOn => true | _ => false end.
Definition default_name (id : Z) (n : nm) : string :=
  match n with
  | NOutput => "phreeqc." ++ dec id ++ ".out"
  | NLog => "phreeqc." ++ dec id ++ ".log"
  | NError => "phreeqc." ++ dec id ++ ".err"
  | NDump => "dump." ++ dec id ++ ".out"
  end%string.
Definition sel_default_name (id n : Z) : string := ("selected_" ++ dec n ++ "." ++ dec id ++ ".out")%string.

Definition new_inst (id : Z) : inst :=
  mkInst id default_sw (default_name id) 1 [(1, false)] [(1, false)] [(1, sel_default_name id 1)].

Fixpoint alookup {A} (n : Z) (m : list (Z * A)) : option A :=
  match m with [] => None | (k, v) :: t => if Z.eqb n k then Some v else alookup n t end.
Fixpoint aset {A} (n : Z) (v : A) (m : list (Z * A)) : list (Z * A) :=
  match m with [] => [(n, v)] | (k, w) :: t => if Z.eqb n k then (k, v) :: t else (k, w) :: aset n v t end.

(** calls on one instance *)
Inductive icall :=
| SetSw (s : sw) (b : bool)
| GetSw (s : sw)
| SetName (n : nm) (v : option string)       (* None = NULL pointer *)
| GetName (n : nm)
| SetCur (n : Z)
| GetCur
| SetSelFile (b : bool) | GetSelFile
| SetSelString (b : bool) | GetSelString
| SetSelName (v : option string) | GetSelName
| GetId
| Load                                       (* successful LoadDatabase*: UnLoadDatabase resets the per-user-number switches and the current number *)
| RunDefines (ns : list Z).                  (* a successful run whose input defines SELECTED_OUTPUT n (no -file) for each n: punch_open
                                                gives n its default file name unless one is already stored *)

Inductive res := RInt (z : Z) | RStr (s : string) | RVoid.

Definition nonempty (v : option string) : option string :=
  match v with Some EmptyString => None | Some s => Some s | None => None end.

(** the C++ method: new state and what the method returns (bools as 0/1) *)
Definition istep (i : inst) (c : icall) : inst * res :=
  match c with
  | SetSw s b => (mkInst (i_id i) (fun t => if sw_eqb t s then b else i_sw i t) (i_name i) (i_cur i) (i_self i) (i_sels i) (i_seln i), RVoid)
  | GetSw s => (i, RInt (if i_sw i s then 1 else 0))
  | SetName n v =>
      match nonempty v with
      | Some str => (mkInst (i_id i) (i_sw i) (fun t => if nm_eqb t n then str else i_name i t) (i_cur i) (i_self i) (i_sels i) (i_seln i), RVoid)
      | None => (i, RVoid)
      end
  | GetName n => (i, RStr (i_name i n))
  | SetCur n => if 0 <=? n then (mkInst (i_id i) (i_sw i) (i_name i) n (i_self i) (i_sels i) (i_seln i), RInt 0)
                else (i, RInt IPQ_INVALIDARG)
  | GetCur => (i, RInt (i_cur i))
  | SetSelFile b => (mkInst (i_id i) (i_sw i) (i_name i) (i_cur i) (aset (i_cur i) b (i_self i)) (i_sels i) (i_seln i), RVoid)
  | GetSelFile => (i, RInt (match alookup (i_cur i) (i_self i) with Some true => 1 | _ => 0 end))
  | SetSelString b => (mkInst (i_id i) (i_sw i) (i_name i) (i_cur i) (i_self i) (aset (i_cur i) b (i_sels i)) (i_seln i), RVoid)
  | GetSelString => (i, RInt (match alookup (i_cur i) (i_sels i) with Some true => 1 | _ => 0 end))
  | SetSelName v =>
      match nonempty v with
      | Some str => (mkInst (i_id i) (i_sw i) (i_name i) (i_cur i) (i_self i) (i_sels i) (aset (i_cur i) str (i_seln i)), RVoid)
      | None => (i, RVoid)
      end
  | GetSelName => (i, RStr (match alookup (i_cur i) (i_seln i) with Some s => s | None => EmptyString end))
  | GetId => (i, RInt (i_id i))
  | Load => (mkInst (i_id i) (i_sw i) (i_name i) 1 [(1, false)] [(1, false)] (i_seln i), RInt 0)
  | RunDefines ns =>
      (mkInst (i_id i) (i_sw i) (i_name i) (i_cur i) (i_self i) (i_sels i)
              (fold_left (fun m n => match alookup n m with
                                     | Some EmptyString | None => aset n (sel_default_name (i_id i) n) m
                                     | Some _ => m
                                     end) ns (i_seln i)), RInt 0)
  end.

(** the registry *)
Record sys := mkSys { next : Z; insts : list (Z * inst) }.
Definition sys0 : sys := mkSys 0 [].

Fixpoint aremove {A} (n : Z) (m : list (Z * A)) : list (Z * A) :=
  match m with [] => [] | (k, v) :: t => if Z.eqb n k then t else (k, v) :: aremove n t end.

(** what the C function returns for a not-live id (documented invalid-instance result) *)
Definition bad_result_C (c : icall) : res :=
  match c with
  | GetName _ | GetSelName => RStr EmptyString
  | _ => RInt IPQ_BADINSTANCE
  end.

(** result-code translation of the C layer for a live instance *)
Definition conv_C (c : icall) (r : res) : res :=
  match c, r with
  | SetSw _ _, _ | SetName _ _, _ | SetSelFile _, _ | SetSelString _, _ | SetSelName _, _ => RInt IPQ_OK
  | _, r => r
  end.

Inductive call :=
| Create
| Destroy (id : Z)
| CCall (id : Z) (c : icall)       (* C function *)
| MCall (id : Z) (c : icall)       (* C++ method on the object (harness calls it only for live ids) *)
| FCall (id : Z) (c : icall) (cap : Z).   (* Fortran binding; cap = length of the caller's character buffer *)

(** padfstring(dest, src, &len): dest = src cut/blank-padded to cap, len := strlen(src) *)
Fixpoint take (n : nat) (s : string) : string :=
  match n, s with O, _ => EmptyString | S m, String c t => String c (take m t) | S m, EmptyString => EmptyString end.
Fixpoint blanks (n : nat) : string := match n with O => EmptyString | S m => String " "%char (blanks m) end.
Definition padf (s : string) (cap : Z) : string :=
  let c := Z.to_nat cap in (take c s ++ blanks (c - String.length s))%string.

Inductive out := OInt (z : Z) | OStr (s : string) | OVoid | OPad (buf : string) (len : Z) | ONotLive.

Definition out_of (r : res) : out := match r with RInt z => OInt z | RStr s => OStr s | RVoid => OVoid end.

Definition api (st : sys) (c : call) : sys * out :=
  match c with
  | Create => (mkSys (next st + 1) (insts st ++ [(next st, new_inst (next st))]), OInt (next st))
  | Destroy id =>
      if id <? 0 then (st, OInt IPQ_BADINSTANCE)
      else match alookup id (insts st) with
           | Some _ => (mkSys (next st) (aremove id (insts st)), OInt IPQ_OK)
           | None => (st, OInt IPQ_BADINSTANCE)
           end
  | CCall id ic =>
      match (if id <? 0 then None else alookup id (insts st)) with
      | Some i => let (i', r) := istep i ic in (mkSys (next st) (aset id i' (insts st)), out_of (conv_C ic r))
      | None => (st, out_of (bad_result_C ic))
      end
  | MCall id ic =>
      match (if id <? 0 then None else alookup id (insts st)) with
      | Some i => let (i', r) := istep i ic in (mkSys (next st) (aset id i' (insts st)), out_of r)
      | None => (st, ONotLive)
      end
  | FCall id ic cap =>
      match (if id <? 0 then None else alookup id (insts st)) with
      | Some i => let (i', r) := istep i ic in
                  (mkSys (next st) (aset id i' (insts st)),
                   match conv_C ic r with RStr s => OPad (padf s cap) (Z.of_nat (String.length s)) | r' => out_of r' end)
      | None => (st, match bad_result_C ic with RStr s => OPad (padf s cap) (Z.of_nat (String.length s)) | r' => out_of r' end)
      end
  end.

Fixpoint run_api (st : sys) (cs : list call) : sys * list out :=
  match cs with
  | [] => (st, [])
  | c :: t => let (st', o) := api st c in let (st'', os) := run_api st' t in (st'', o :: os)
  end.

(** comparison helper for the correspondence: indices at which the observed outputs differ *)
Definition out_eqb (a b : out) : bool :=
  match a, b with
  | OInt x, OInt y => Z.eqb x y
  | OStr x, OStr y => String.eqb x y
  | OVoid, OVoid => true
  | OPad x n, OPad y m => String.eqb x y && Z.eqb n m
  | ONotLive, ONotLive => true
  | _, _ => false
  end.
Fixpoint mismatches (i : nat) (a b : list out) : list nat :=
  match a, b with
  | x :: a', y :: b' => if out_eqb x y then mismatches (S i) a' b' else i :: mismatches (S i) a' b'
  | [], [] => []
  | _, _ => [i]
  end.
Definition check_trace (cs : list call) (observed : list out) : list nat := mismatches 0 (snd (run_api sys0 cs)) observed.
