(** C07 — reset coverage obligations over the regenerated inventory (Gen/Gen_C07.v).
    [reviewed_not_reset] is the REVIEWED allow-list of data members of class Phreeqc that the reset path
    (clean_up, init, do_initialize/initialize, pitzer/sit init and clean-up) never mentions: containers and
    objects emptied by their own constructors/destructors or work variables that are always written before
    they are read.  A member that newly drops out of the reset path (e.g. a deleted line of Phreeqc::init)
    is NOT in this list and makes [phreeqc_reset_covers_every_field] false. *)
From Coq Require Import List String Bool.
Import ListNotations.
Local Open Scope string_scope.

Definition mem (s : string) (l : list string) : bool := existsb (String.eqb s) l.

(** documented survivors of a load: id, engine pointer, file handles, global switches, user-set file names *)
Definition switch_survivors : list string :=
  ["OutputFileOn"; "LogFileOn"; "ErrorFileOn"; "DumpOn"; "DumpStringOn"; "OutputStringOn"; "LogStringOn"; "ErrorStringOn"; "WarningStringOn"].
Definition name_survivors : list string := ["OutputFileName"; "ErrorFileName"; "LogFileName"; "DumpFileName"; "SelectedOutputFileNameMap"].
Definition other_survivors : list string := ["Index"; "PhreeqcPtr"; "input_file"; "database_file"].

Definition wrapper_field_ok (unload call_start upd listc calls : list string) (m : string) : bool :=
  mem m unload                                   (* reset by UnLoadDatabase *)
  || mem m switch_survivors || mem m name_survivors || mem m other_survivors
  || mem m call_start                            (* cleared at the start of every Run* call (check_database) *)
  || mem m upd                                   (* recomputed by update_errors at the end of every call *)
  || (mem m listc && mem "UpdateComponents" unload)
  || (String.eqb m "StringInput" && mem "ClearAccumulatedLines" calls).   (* erased through ClearAccumulatedLines() *)   (* refreshed lazily under the UpdateComponents flag, which the unload sets *)

Definition wrapper_reset_ok (members unload unload_w call_start upd listc calls : list string) : bool :=
  forallb (wrapper_field_ok unload call_start upd listc calls) members
  && forallb (fun s => negb (mem s unload_w)) switch_survivors      (* a surviving switch must not be assigned/cleared by the unload *)
  && forallb (fun s => negb (mem s unload_w)) name_survivors
  && mem "clean_up" calls && mem "init" calls && mem "do_initialize" calls.

(* members added on 2026-10-01 when the member parser learnt elaborated type specifiers (`class copier copy_solution;`):
   basicCallback   — user-installed callback (SetBasicCallback): a survivor by design;
   copy_*          — (were excused here on a wrong dynamic check; a pending COPY of an aborted run survived the load: repaired in
                     9f4aeed9, clean_up now clears them and they are off this list);
   save            — SAVE flags: reset at the start of every read_input. *)
Definition reviewed_not_reset : list string := ["basicCallback"; "save"; "Rxn_new_exchange"; "Rxn_new_gas_phase"; "Rxn_new_kinetics"; "Rxn_new_mix"; "Rxn_new_pp_assemblage"; "Rxn_new_pressure"; "Rxn_new_reaction"; "Rxn_new_solution"; "Rxn_new_ss_assemblage"; "Rxn_new_surface"; "Rxn_new_temperature"; "SC"; "anion_list"; "array1"; "back_eq"; "bad"; "bdot_llnl"; "cation_list"; "charge_group_map"; "col_back"; "col_name"; "cu"; "default_pe_x"; "delete_info"; "delta"; "delta1"; "delta2"; "delta3"; "delta_save"; "description_x"; "dump_file_name_cpp"; "dump_info"; "gas_unknowns"; "gfw_map"; "good"; "ineq_array"; "inv_cu"; "inv_delta1"; "inv_is"; "inv_iu"; "inv_res"; "inv_zero"; "inverse_heading_names"; "ioInstance"; "ion_list"; "is"; "iu"; "kgw_kgs"; "max_delta"; "max_strings"; "min_delta"; "minimal"; "mixrun"; "my_array"; "neutral_list"; "normal"; "param_list"; "rate_p"; "res"; "res_arg"; "residual"; "rho_0_sat"; "row_back"; "row_name"; "s_diff_layer"; "s_list"; "s_x"; "scratch"; "screen_string"; "sit_aqueous_unknowns"; "solution_mass_x"; "solution_volume_x"; "status_string"; "strings_map"; "sum_delta"; "sum_jacob0"; "sum_jacob1"; "sum_jacob2"; "sum_mb1"; "sum_mb2"; "sum_species_map"; "sum_species_map_db"; "sys"; "tally_table"; "units_x"; "unnumbered_solutions"; "user_database"; "x_arg"; "zero"].

Definition phreeqc_reset_ok (not_reset : list string) : bool := forallb (fun m => mem m reviewed_not_reset) not_reset.

(** calls the reset path must make (reviewed list): freeing and re-creating sub-objects that carry state of their own
    (the BASIC interpreter with its sticky output flags, pitzer/sit tables, CVODE work space, rates, calculate_values,
    the string pool ...).  A call that disappears from clean_up / initialize / UnLoadDatabase makes the obligation false. *)
Definition required_reset_calls : list string :=
  ["UnLoadDatabase:Clear"; "UnLoadDatabase:ClearAccumulatedLines"; "UnLoadDatabase:clean_up"; "UnLoadDatabase:init"; "UnLoadDatabase:do_initialize";
   "clean_up:basic_free"; "clean_up:calculate_value_free"; "clean_up:free_cvode"; "clean_up:free_model_allocs"; "clean_up:free_spread";
   "clean_up:free_tally_table"; "clean_up:inverse_free"; "clean_up:master_free"; "clean_up:phase_free"; "clean_up:pitzer_clean_up";
   "clean_up:rate_free"; "clean_up:s_free"; "clean_up:sit_clean_up"; "clean_up:strings_map_clear"; "clean_up:unknown_free";
   "do_initialize:initialize"; "initialize:PBasic"; "initialize:basic_free"; "initialize:cvode_init"; "initialize:pitzer_init"; "initialize:sit_init"].
Definition reset_calls_ok (calls : list string) : bool := forallb (fun c => mem c calls) required_reset_calls.
