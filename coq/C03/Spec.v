(* C03 — the property as a predicate on what a completed reaction calculation reports, and an executable
   checker over exact rationals (the doubles reported by the implementation are dyadic rationals). *)
From Coq Require Import QArith Reals Qreals List Bool Lra.
Import ListNotations.

(* ------------------------------------------------------------------ observations *)

Inductive pkind : Type := KNormal | KDissolve | KPrecip.

(* one non-gas mineral of an EQUILIBRIUM_PHASES assemblage after the reaction step *)
Record pp_obs : Type := PP {
  pp_kind : pkind;       (* none (also force_equality) / dissolve_only / precipitate_only *)
  pp_target : Q;         (* requested saturation index *)
  pp_init : Q;           (* amount in the definition (mol) *)
  pp_moles : Q;          (* amount after the step, EQUI("name") *)
  pp_si : Q              (* saturation index after the step, SI("name") *)
}.

(* one exchanger / surface site type: defined amount of sites and the sum of occupied equivalents reported *)
Record site_obs : Type := SITE { site_defined : Q; site_found : Q }.

(* one solid solution: per component amount (S_S) and activity IAP/K (SR) *)
Record ss_obs : Type := SS { ss_ideal : bool; ss_comps : list (Q * Q) }.

Record hcase : Type := CASE { c_pp : list pp_obs; c_exch : list site_obs; c_surf : list site_obs; c_ss : list ss_obs }.

(* ------------------------------------------------------------------ the property (over R) *)
Section Valid.
  Open Scope R_scope.
  Definition tolSI : R := 1 / 1000000.          (* "saturation index equal to the requested target (1e-6)" *)
  Definition tolSite : R := 1 / 100000000.      (* "sum of occupied equivalents = defined sites, 1e-8" *)
  Definition tolAct : R := 1 / 1000000.         (* activity = mole fraction, relative *)

  (* present with SI = target, or absent (exactly 0) with SI not above the target; restrictions respected *)
  Definition pp_validR (k : pkind) (target init moles si : R) : Prop :=
    0 <= moles /\
    match k with
    | KNormal => (0 < moles -> Rabs (si - target) <= tolSI) /\ (~ 0 < moles -> moles = 0 /\ si <= target + tolSI)
    | KDissolve => moles <= init /\ (0 < moles -> target - tolSI <= si) /\ (moles < init -> si <= target + tolSI)
    | KPrecip => init <= moles /\ si <= target + tolSI /\ (init < moles -> target - tolSI <= si)
    end.

  Definition site_validR (defined found : R) : Prop := Rabs (found - defined) <= tolSite * defined.

  Fixpoint sumR (l : list R) : R := match l with [] => 0 | x :: r => x + sumR r end.

  (* amounts non-negative (hence mole fractions n_i / sum n are non-negative and sum to one, see
     ss_fractions_simplex); present ideal solution: activity of every component = its mole fraction;
     absent: the sum of the activities does not exceed one *)
  Definition ss_validR (ideal : bool) (comps : list (R * R)) : Prop :=
    let tot := sumR (map fst comps) in
    Forall (fun c => 0 <= fst c) comps /\
    (ideal = true ->
       (0 < tot -> Forall (fun c => Rabs (snd c * tot - fst c) <= tolAct * fst c) comps) /\
       (~ 0 < tot -> sumR (map snd comps) <= 1 + tolAct)).
End Valid.

Definition pp_valid (p : pp_obs) : Prop :=
  pp_validR (pp_kind p) (Q2R (pp_target p)) (Q2R (pp_init p)) (Q2R (pp_moles p)) (Q2R (pp_si p)).
Definition site_valid (s : site_obs) : Prop := site_validR (Q2R (site_defined s)) (Q2R (site_found s)).
Definition ss_valid (s : ss_obs) : Prop :=
  ss_validR (ss_ideal s) (map (fun c => (Q2R (fst c), Q2R (snd c))) (ss_comps s)).

Definition hetero_valid (c : hcase) : Prop :=
  Forall pp_valid (c_pp c) /\ Forall site_valid (c_exch c) /\ Forall site_valid (c_surf c) /\ Forall ss_valid (c_ss c).

(* ------------------------------------------------------------------ the executable checker (over Q) *)
Open Scope Q_scope.

Definition qtolSI : Q := 1 # 1000000.
Definition qtolSite : Q := 1 # 100000000.
Definition qtolAct : Q := 1 # 1000000.

Definition Qlt_bool (x y : Q) : bool := negb (Qle_bool y x).

Definition pp_ok (p : pp_obs) : bool :=
  let t := pp_target p in let i := pp_init p in let m := pp_moles p in let s := pp_si p in
  Qle_bool 0 m &&
  match pp_kind p with
  | KNormal => if Qlt_bool 0 m then Qle_bool (s - t) qtolSI && Qle_bool (t - s) qtolSI
               else Qeq_bool m 0 && Qle_bool s (t + qtolSI)
  | KDissolve => Qle_bool m i && (if Qlt_bool 0 m then Qle_bool (t - qtolSI) s else true)
                 && (if Qlt_bool m i then Qle_bool s (t + qtolSI) else true)
  | KPrecip => Qle_bool i m && Qle_bool s (t + qtolSI) && (if Qlt_bool i m then Qle_bool (t - qtolSI) s else true)
  end.

Definition site_ok (s : site_obs) : bool :=
  let d := site_defined s in let f := site_found s in
  Qle_bool (f - d) (qtolSite * d) && Qle_bool (d - f) (qtolSite * d).

Fixpoint sumQ (l : list Q) : Q := match l with [] => 0 | x :: r => x + sumQ r end.

Definition ss_ok (s : ss_obs) : bool :=
  let tot := sumQ (map fst (ss_comps s)) in
  forallb (fun c => Qle_bool 0 (fst c)) (ss_comps s) &&
  (if ss_ideal s then
     if Qlt_bool 0 tot then
       forallb (fun c => Qle_bool (snd c * tot - fst c) (qtolAct * fst c) && Qle_bool (fst c - snd c * tot) (qtolAct * fst c)) (ss_comps s)
     else Qle_bool (sumQ (map snd (ss_comps s))) (1 + qtolAct)
   else true).

Definition case_ok (c : hcase) : bool :=
  forallb pp_ok (c_pp c) && forallb site_ok (c_exch c) && forallb site_ok (c_surf c) && forallb ss_ok (c_ss c).
