(* C03 — the property as a predicate on what a completed reaction calculation reports, and an executable
   checker over exact rationals (the doubles reported by the implementation are dyadic rationals). *)
From Coq Require Import QArith Reals Qreals List Bool Lra.
Import ListNotations.

(* ------------------------------------------------------------------ observations *)

Inductive pkind : Type := KNormal | KDissolve | KPrecip | KForce.

(* one non-gas mineral of an EQUILIBRIUM_PHASES assemblage after the reaction step *)
Record pp_obs : Type := PP {
  pp_kind : pkind;       (* none / dissolve_only / precipitate_only / force_equality *)
  pp_target : Q;         (* requested saturation index *)
  pp_init : Q;           (* amount in the definition (mol) *)
  pp_moles : Q;          (* amount after the step, EQUI("name") *)
  pp_si : Q              (* saturation index after the step, SI("name") *)
}.

(* one exchanger / surface site type: defined amount of sites and the sum of occupied equivalents reported *)
Record site_obs : Type := SITE { site_defined : Q; site_found : Q }.

(* one solid solution: per component amount (S_S) and activity IAP/K (SR) *)
Record ss_obs : Type := SS { ss_ideal : bool; ss_comps : list (Q * Q) }.

(* one PRESENT solid solution as stored after the step (SAVE + DUMP): per component amount, SI (BASIC), and the
   stored mole fraction, log10 mole fraction, log10 activity coefficient; Guggenheim parameters a0, a1 actually used *)
Record ssx_comp : Type := SSXC { xc_moles : Q; xc_si : Q; xc_frac : Q; xc_l10frac : Q; xc_l10lam : Q }.
(* sx_gap: the composition lies in the miscibility gap (the stored fractions are then those of the gap end member
   mixture, not n_i / n) *)
Record ssx_obs : Type := SSX { sx_ideal : bool; sx_gap : bool; sx_a0 : Q; sx_a1 : Q; sx_comps : list ssx_comp }.

(* c_ssabs: total stored amount (DUMP -moles) of every solid solution that the engine treats as absent (ss_in = 0) *)
Record hcase : Type := CASE { c_pp : list pp_obs; c_exch : list site_obs; c_surf : list site_obs; c_ss : list ss_obs;
                              c_ssx : list ssx_obs; c_ssabs : list Q }.

(* ------------------------------------------------------------------ the property (over R) *)
Section Valid.
  Open Scope R_scope.
  Definition tolSI : R := 1 / 1000000.          (* "saturation index equal to the requested target (1e-6)" *)
  Definition tolSite : R := 1 / 100000000.      (* "sum of occupied equivalents = defined sites, 1e-8" *)
  Definition tolAct : R := 1 / 1000000.         (* activity = mole fraction, relative *)

  (* present with SI = target, or absent (exactly 0) with SI not above the target; restrictions respected *)
  Definition pp_validR (k : pkind) (target init moles si : R) : Prop :=
    0 <= moles /\
    match k with
    | KNormal => (0 < moles -> Rabs (si - target) <= tolSI) /\ (~ 0 < moles -> moles = 0 /\ si <= target + tolSI)
    | KDissolve => moles <= init /\ (0 < moles -> target - tolSI <= si) /\ (moles < init -> si <= target + tolSI)
    | KPrecip => init <= moles /\ si <= target + tolSI /\ (init < moles -> target - tolSI <= si)
    | KForce => Rabs (si - target) <= tolSI     (* -force_equality: the target is reached (or the run ends with an error) *)
    end.

  Definition site_validR (defined found : R) : Prop := Rabs (found - defined) <= tolSite * defined.

  Fixpoint sumR (l : list R) : R := match l with [] => 0 | x :: r => x + sumR r end.

  (* amounts non-negative (hence mole fractions n_i / sum n are non-negative and sum to one, see
     ss_fractions_simplex); present ideal solution: activity of every component = its mole fraction;
     absent: the sum of the activities does not exceed one *)
  Definition ss_validR (ideal : bool) (comps : list (R * R)) : Prop :=
    let tot := sumR (map fst comps) in
    Forall (fun c => 0 <= fst c) comps /\
    (ideal = true ->
       (0 < tot -> Forall (fun c => Rabs (snd c * tot - fst c) <= tolAct * fst c) comps) /\
       (~ 0 < tot -> sumR (map snd comps) <= 1 + tolAct)).

  Definition tolFrac : R := 1 / 1000000000.     (* stored numbers carry 14 significant digits *)
  Definition tolAbsent : R := 1 / 1000000000000. (* a solid solution left out of the equations holds no material *)

  (* Guggenheim (Redlich-Kister) activity coefficients of a binary solution, x1 x2 the mole fractions *)
  Definition gugg1 (a0 a1 x2 : R) : R := x2 * x2 * (a0 - a1 * (3 - 4 * x2)).
  Definition gugg2 (a0 a1 x1 x2 : R) : R := x1 * x1 * (a0 + a1 * (4 * x2 - 1)).

  (* component tuple: (moles, si, frac, log10 frac, log10 lambda) *)
  Definition T5 : Type := (R * R * R * R * R)%type.
  Definition mol (c : T5) : R := fst (fst (fst (fst c))).
  Definition si (c : T5) : R := snd (fst (fst (fst c))).
  Definition fr (c : T5) : R := snd (fst (fst c)).
  Definition lf (c : T5) : R := snd (fst c).
  Definition ll (c : T5) : R := snd c.
  Definition ssx_validR (ideal gap : bool) (a0 a1 : R) (comps : list T5) : Prop :=
    let tot := sumR (map mol comps) in
    Forall (fun c => 0 <= fr c) comps /\
    Rabs (sumR (map fr comps) - 1) <= tolFrac /\
    (gap = false -> Forall (fun c => Rabs (fr c * tot - mol c) <= tolFrac * tot) comps) /\
    Forall (fun c => Rabs (si c - (lf c + ll c)) <= tolSI) comps /\
    (ideal = true -> Forall (fun c => ll c = 0) comps) /\
    (ideal = false ->
       match comps with
       | [c0; c1] => Rabs (ll c0 * ln 10 - gugg1 a0 a1 (fr c1)) <= tolFrac /\
                     Rabs (ll c1 * ln 10 - gugg2 a0 a1 (fr c0) (fr c1)) <= tolFrac
       | _ => True
       end).
End Valid.

Definition pp_valid (p : pp_obs) : Prop :=
  pp_validR (pp_kind p) (Q2R (pp_target p)) (Q2R (pp_init p)) (Q2R (pp_moles p)) (Q2R (pp_si p)).
Definition site_valid (s : site_obs) : Prop := site_validR (Q2R (site_defined s)) (Q2R (site_found s)).
Definition ss_valid (s : ss_obs) : Prop :=
  ss_validR (ss_ideal s) (map (fun c => (Q2R (fst c), Q2R (snd c))) (ss_comps s)).

Definition ssx_tuple (c : ssx_comp) : T5 :=
  (Q2R (xc_moles c), Q2R (xc_si c), Q2R (xc_frac c), Q2R (xc_l10frac c), Q2R (xc_l10lam c)).
Definition ssx_valid (s : ssx_obs) : Prop :=
  ssx_validR (sx_ideal s) (sx_gap s) (Q2R (sx_a0 s)) (Q2R (sx_a1 s)) (map ssx_tuple (sx_comps s)).

Definition hetero_valid (c : hcase) : Prop :=
  Forall pp_valid (c_pp c) /\ Forall site_valid (c_exch c) /\ Forall site_valid (c_surf c) /\ Forall ss_valid (c_ss c)
  /\ Forall ssx_valid (c_ssx c) /\ Forall (fun t => (Q2R t <= tolAbsent)%R) (c_ssabs c).

(* ------------------------------------------------------------------ the executable checker (over Q) *)
Open Scope Q_scope.

Definition qtolSI : Q := 1 # 1000000.
Definition qtolSite : Q := 1 # 100000000.
Definition qtolAct : Q := 1 # 1000000.

Definition Qlt_bool (x y : Q) : bool := negb (Qle_bool y x).

Definition pp_ok (p : pp_obs) : bool :=
  let t := pp_target p in let i := pp_init p in let m := pp_moles p in let s := pp_si p in
  Qle_bool 0 m &&
  match pp_kind p with
  | KNormal => if Qlt_bool 0 m then Qle_bool (s - t) qtolSI && Qle_bool (t - s) qtolSI
               else Qeq_bool m 0 && Qle_bool s (t + qtolSI)
  | KDissolve => Qle_bool m i && (if Qlt_bool 0 m then Qle_bool (t - qtolSI) s else true)
                 && (if Qlt_bool m i then Qle_bool s (t + qtolSI) else true)
  | KPrecip => Qle_bool i m && Qle_bool s (t + qtolSI) && (if Qlt_bool i m then Qle_bool (t - qtolSI) s else true)
  | KForce => Qle_bool (s - t) qtolSI && Qle_bool (t - s) qtolSI
  end.

Definition site_ok (s : site_obs) : bool :=
  let d := site_defined s in let f := site_found s in
  Qle_bool (f - d) (qtolSite * d) && Qle_bool (d - f) (qtolSite * d).

Fixpoint sumQ (l : list Q) : Q := match l with [] => 0 | x :: r => x + sumQ r end.

Definition ss_ok (s : ss_obs) : bool :=
  let tot := sumQ (map fst (ss_comps s)) in
  forallb (fun c => Qle_bool 0 (fst c)) (ss_comps s) &&
  (if ss_ideal s then
     if Qlt_bool 0 tot then
       forallb (fun c => Qle_bool (snd c * tot - fst c) (qtolAct * fst c) && Qle_bool (fst c - snd c * tot) (qtolAct * fst c)) (ss_comps s)
     else Qle_bool (sumQ (map snd (ss_comps s))) (1 + qtolAct)
   else true).

Definition qtolFrac : Q := 1 # 1000000000.
(* rational bounds of ln 10 = 2.302585092994045684... *)
Definition ln10_lo : Q := 2302585092994045 # 1000000000000000.
Definition ln10_hi : Q := 2302585092994046 # 1000000000000000.

Definition Qabs_le (x t : Q) : bool := Qle_bool x t && Qle_bool (- t) x.

Definition ssx_ok (s : ssx_obs) : bool :=
  let cs := sx_comps s in
  let tot := sumQ (map xc_moles cs) in
  forallb (fun c => Qle_bool 0 (xc_frac c)) cs &&
  Qabs_le (sumQ (map xc_frac cs) - 1) qtolFrac &&
  (if sx_gap s then true else forallb (fun c => Qabs_le (xc_frac c * tot - xc_moles c) (qtolFrac * tot)) cs) &&
  forallb (fun c => Qabs_le (xc_si c - (xc_l10frac c + xc_l10lam c)) qtolSI) cs &&
  (if sx_ideal s then forallb (fun c => Qeq_bool (xc_l10lam c) 0) cs
   else match cs with
        | [c0; c1] =>
          let g1 := xc_frac c1 * xc_frac c1 * (sx_a0 s - sx_a1 s * (3 - 4 * xc_frac c1)) in
          let g2 := xc_frac c0 * xc_frac c0 * (sx_a0 s + sx_a1 s * (4 * xc_frac c1 - 1)) in
          Qabs_le (xc_l10lam c0 * ln10_lo - g1) qtolFrac && Qabs_le (xc_l10lam c0 * ln10_hi - g1) qtolFrac &&
          Qabs_le (xc_l10lam c1 * ln10_lo - g2) qtolFrac && Qabs_le (xc_l10lam c1 * ln10_hi - g2) qtolFrac
        | _ => true
        end).

Definition case_ok (c : hcase) : bool :=
  forallb pp_ok (c_pp c) && forallb site_ok (c_exch c) && forallb site_ok (c_surf c) && forallb ss_ok (c_ss c)
  && forallb ssx_ok (c_ssx c) && forallb (fun t => Qle_bool t (1 # 1000000000000)) (c_ssabs c).
