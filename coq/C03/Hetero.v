(* C03 — hand-written part of the model: how the regenerated fragments (Gen_C03_model) are put together.

   * [keeps v s e]         : executing fragment [s] from state [e] leaves flag [v] unchanged
                             (used for: residuals() did not clear `converge`, check_residuals() did not set
                             `remove_unstable_phases`, did not call error_msg)
   * [f_value terms e toks]: value of x[i]->f as accumulated by the store_mb(...) terms that
                             build_pure_phases / build_ss_assemblage register (sum_mb adds coef * source to target)
   * [wp_foreach], [wp_collect] : the two `for` loops of calc_ss_fractions over the components of one solid solution
*)
From Coq Require Import QArith Reals String List Qreals Lra.
Require Import IPV.C03.Syntax IPV.C03.Spec.
Import ListNotations.
Open Scope string_scope.
Open Scope R_scope.

(* the only assumption on libm used anywhere: C `log` is the natural logarithm (LOG_10 = log(10.0)) *)
Definition libm_ok (fun1 : string -> R -> R) : Prop := forall x, fun1 "ln" x = ln x.

Section Model.
  Variable fun1 : string -> R -> R.
  Variable fun2 : string -> R -> R -> R.

  Definition keeps (v : string) (s : stmt) (e : env) : Prop :=
    wp fun1 fun2 s e (fun e' _ => e' v = e v).

  (* ---- x[i]->f from the store_mb terms.  A reaction token is (log activity of the species, coefficient). *)
  Definition tok_env (e : env) (tk : R * R) : env := upd (upd e "tok.coef" (snd tk)) "tok.s.la" (fst tk).

  Definition term_val (e : env) (t : fterm) : R :=
    match t with FT _ src c _ => eden fun1 fun2 e c * e src end.

  Definition in_loop (t : fterm) : bool := match t with FT _ _ _ b => b end.

  Fixpoint sum_terms (e : env) (want_loop : bool) (ts : list fterm) : R :=
    match ts with
    | [] => 0
    | t :: r => (if Bool.eqb (in_loop t) want_loop then term_val e t else 0) + sum_terms e want_loop r
    end.

  Fixpoint sum_tokens (e : env) (ts : list fterm) (toks : list (R * R)) : R :=
    match toks with
    | [] => 0
    | tk :: r => sum_terms (tok_env e tk) true ts + sum_tokens e ts r
    end.

  Definition f_value (ts : list fterm) (e : env) (toks : list (R * R)) : R :=
    sum_terms e false ts + sum_tokens e ts toks.

  (* log10 of the ion activity product of a phase: sum of coef * la over the reaction tokens *)
  Fixpoint log_iap (toks : list (R * R)) : R :=
    match toks with [] => 0 | (la, c) :: r => c * la + log_iap r end.

  (* ---- loops over the components of a solid solution: [bind] receives the amount of the current component *)
  Fixpoint wp_foreach (body : stmt) (bind : string) (ms : list R) (e : env) (K : env -> Prop) : Prop :=
    match ms with
    | [] => K e
    | m :: r => wp fun1 fun2 body (upd e bind m) (fun e' _ => wp_foreach body bind r e' K)
    end.

  Fixpoint wp_collect (body : stmt) (bind out : string) (ms : list R) (e : env) (acc : list R)
           (K : env -> list R -> Prop) : Prop :=
    match ms with
    | [] => K e (rev acc)
    | m :: r => wp fun1 fun2 body (upd e bind m) (fun e' _ => wp_collect body bind out r e' (e' out :: acc) K)
    end.

  Lemma wp_foreach_mono : forall body bind ms e (K K' : env -> Prop),
      (forall e', K e' -> K' e') -> wp_foreach body bind ms e K -> wp_foreach body bind ms e K'.
  Proof.
    induction ms as [|m r IH]; intros e K K' HK H; simpl in *; auto.
    eapply wp_mono; [| exact H]. intros e' fl H'. eapply IH; eauto.
  Qed.

  Lemma wp_collect_mono : forall body bind out ms e acc (K K' : env -> list R -> Prop),
      (forall e' l, K e' l -> K' e' l) -> wp_collect body bind out ms e acc K -> wp_collect body bind out ms e acc K'.
  Proof.
    induction ms as [|m r IH]; intros e acc K K' HK H; simpl in *; auto.
    eapply wp_mono; [| exact H]. intros e' fl H'. eapply IH; eauto.
  Qed.
End Model.

(* amount used for a component: a negative amount is replaced by MIN_TOTAL_SS *)
Definition clamp (mn m : R) : R := if Rlt_dec m 0 then mn else m.

Lemma clamp_nonneg : forall mn m, 0 < mn -> 0 <= clamp mn m.
Proof. intros mn m H. unfold clamp. destruct (Rlt_dec m 0); lra. Qed.

Lemma sumR_clamp_nonneg : forall mn ms, 0 < mn -> 0 <= sumR (map (clamp mn) ms).
Proof.
  intros mn ms H. induction ms as [|m r IH]; simpl; [lra|].
  pose proof (clamp_nonneg mn m H). lra.
Qed.

Lemma sumR_clamp_pos : forall mn ms, 0 < mn -> (exists m, In m ms /\ m <> 0) -> 0 < sumR (map (clamp mn) ms).
Proof.
  intros mn ms H [m [Hin Hm]]. induction ms as [|a r IH]; simpl in *; [contradiction|].
  pose proof (clamp_nonneg mn a H). pose proof (sumR_clamp_nonneg mn r H).
  destruct Hin as [-> | Hin].
  - assert (0 < clamp mn m); [| lra]. unfold clamp. destruct (Rlt_dec m 0); lra.
  - specialize (IH Hin). lra.
Qed.

Lemma sumR_div : forall N l, sumR (map (fun x => x / N) l) = sumR l / N.
Proof. intros N l. induction l as [|a r IH]; simpl; [lra | rewrite IH; lra]. Qed.

Lemma sumR_app : forall a b, sumR (a ++ b) = sumR a + sumR b.
Proof. induction a as [|x r IH]; intros b; simpl; [lra | rewrite IH; lra]. Qed.

Lemma sumR_rev : forall l, sumR (rev l) = sumR l.
Proof. induction l as [|x r IH]; simpl; [reflexivity | rewrite sumR_app, IH; simpl; lra]. Qed.

(* ---- reuse of the equation system (prep.cpp: quick_setup) versus a full build (setup_pure_phases):
   which fields x.<f> of the PP unknown are filled from the field <comp>.<f> of the assemblage component *)

Definition strip_prefix (p s : string) : option string :=
  if String.prefix p s then Some (String.substring (String.length p) (String.length s - String.length p) s) else None.

(* (assigned variable, variable it is read from); `v = w ? TRUE : FALSE` (transliterated as an if) counts as read from w *)
Fixpoint refreshes (s : stmt) : list (string * string) :=
  match s with
  | SAssign v (EVar w) => [(v, w)]
  | SSeq a b => (refreshes a ++ refreshes b)%list
  | SIf (CNz (EVar w)) (SAssign v _) (SAssign v' _) => if String.eqb v v' then [(v, w)] else []
  | SIf _ a b => (refreshes a ++ refreshes b)%list
  | _ => []
  end.

Definition field_of (comp : string) (vw : string * string) : option string :=
  match strip_prefix "x." (fst vw), strip_prefix (comp ++ ".") (snd vw) with
  | Some f1, Some f2 => if String.eqb f1 f2 then Some f1 else None
  | _, _ => None
  end.

Fixpoint somes {A : Type} (l : list (option A)) : list A :=
  match l with [] => [] | Some a :: r => a :: somes r | None :: r => somes r end.

Definition comp_fields (comp : string) (s : stmt) : list string := somes (map (field_of comp) (refreshes s)).

Definition mem_str (x : string) (l : list string) : bool := existsb (String.eqb x) l.

(* every field the full build fills from the component is refreshed from the component when the model is reused *)
Definition reuse_refreshes_all (setup_comp : string) (setup : stmt) (quick_comp : string) (quick : stmt) : bool :=
  forallb (fun f => mem_str f (comp_fields quick_comp quick)) (comp_fields setup_comp setup).

(* ---- solid-solution unknowns: which fields of the shared phase record x.phase.<f> are copied from <comp>.<f> on
   EVERY path through a fragment (an assignment under an `if` without a matching one in the other branch does not count) *)
Fixpoint always_copies (v w : string) (s : stmt) : bool :=
  match s with
  | SAssign v' (EVar w') => String.eqb v v' && String.eqb w w'
  | SSeq a b => always_copies v w a || always_copies v w b
  | SIf _ a b => always_copies v w a && always_copies v w b
  | _ => false
  end.

(* the per-phase quantities the solid-solution residual (store_mb terms) reads, besides log K *)
Definition phase_fields_read (ts : list fterm) : list string :=
  somes (map (fun t => match t with FT _ src _ _ => strip_prefix "x.phase." src end) ts).

Definition ss_phase_fields (ts : list fterm) : list string :=
  (filter (fun f => negb (String.eqb f "lk")) (phase_fields_read ts) ++ ["dn"; "dnb"; "dnc"])%list.

Definition copies_all_phase_fields (ts : list fterm) (comp : string) (s : stmt) : bool :=
  forallb (fun f => always_copies ("x.phase." ++ f) (comp ++ "." ++ f) s) (ss_phase_fields ts).

(* ---- call order inside model(): precipitate_only amounts must be inert (set_inert_moles) whenever a solver is entered
   (model_pz(), model_sit(), or falling through to the main iteration loop) and must have been given back
   (unset_inert_moles) at every return.  A path analysis of the regenerated statements; every path is followed. *)
Fixpoint expr_uses (vs : list string) (x : expr) : bool :=
  match x with
  | EVar v => mem_str v vs
  | ENum _ => false
  | EAdd a b | ESub a b | EMul a b | EDiv a b | EFun2 _ a b => expr_uses vs a || expr_uses vs b
  | ENeg a | EAbs a | EFun1 _ a => expr_uses vs a
  end.

Fixpoint cond_uses (vs : list string) (c : cond) : bool :=
  match c with
  | CLt a b | CLe a b | CGt a b | CGe a b | CEq a b | CNe a b => expr_uses vs a || expr_uses vs b
  | CAnd c d | COr c d => cond_uses vs c || cond_uses vs d
  | CNot c => cond_uses vs c
  | CNz a => expr_uses vs a
  | CEqual a b e => expr_uses vs a || expr_uses vs b || expr_uses vs e
  end.

Fixpoint stmt_uses (vs : list string) (s : stmt) : bool :=
  match s with
  | SSeq a b => stmt_uses vs a || stmt_uses vs b
  | SIf c a b => cond_uses vs c || stmt_uses vs a || stmt_uses vs b
  | SAssign _ x | SReturn x => expr_uses vs x
  | SLoop a => stmt_uses vs a
  | _ => false
  end.

Inductive order_res : Type := OViolation | OFalls (inert : bool) | OReturned.

Definition solver_entries : list string := ["model_pz()"; "model_sit()"].

Fixpoint call_order (s : stmt) (inert : bool) : order_res :=
  match s with
  | SSkip | SBreak | SContinue => OFalls inert
  | SCall f => if String.eqb f "set_inert_moles" then OFalls true
               else if String.eqb f "unset_inert_moles" then OFalls false else OFalls inert
  | SAssign _ x => if expr_uses solver_entries x && negb inert then OViolation else OFalls inert
  | SReturn x => if expr_uses solver_entries x || inert then OViolation else OReturned
  | SLoop a => if stmt_uses solver_entries a && negb inert then OViolation else OFalls inert
  | SSeq a b => match call_order a inert with
                | OFalls i => call_order b i
                | r => r
                end
  | SIf c a b =>
      if cond_uses solver_entries c && negb inert then OViolation else
      match call_order a inert, call_order b inert with
      | OViolation, _ | _, OViolation => OViolation
      | OReturned, r | r, OReturned => r
      | OFalls i, OFalls j => if Bool.eqb i j then OFalls i else OViolation
      end
  end.

(* ---- "f is called before g on every path through s": used for the loop over reaction steps (the reference
   amounts `initial_moles` must be reset - set_initial_moles - before the step is solved - run_reactions).
   [seen] : f has been called on every path so far; None : g is reached on some path without f. *)
Fixpoint call_before (f g : string) (s : stmt) (seen : bool) : option bool :=
  match s with
  | SCall h => if String.eqb h g then (if seen then Some seen else None)
               else if String.eqb h f then Some true else Some seen
  | SSeq a b => match call_before f g a seen with Some s1 => call_before f g b s1 | None => None end
  | SIf _ a b => match call_before f g a seen, call_before f g b seen with
                 | Some s1, Some s2 => Some (s1 && s2)
                 | _, _ => None
                 end
  | SLoop a => match call_before f g a seen with Some _ => Some seen | None => None end
  | _ => Some seen
  end.

Fixpoint calls (g : string) (s : stmt) : bool :=
  match s with
  | SCall h => String.eqb h g
  | SSeq a b | SIf _ a b => calls g a || calls g b
  | SLoop a => calls g a
  | _ => false
  end.
