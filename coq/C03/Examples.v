(* C03 — non-vacuity: concrete states satisfying the hypotheses of the theorems of Props/Properties_C03.v
   (built as an extra target by every ./check C03). *)
From Coq Require Import QArith Reals String List Qreals Lra Bool.
Require Import IPV.C03.Syntax IPV.C03.SymExec IPV.C03.Hetero IPV.C03.Spec IPV.C03.SpecProofs IPV.Gen.Gen_C03_model IPV.C03.Tie.
Import ListNotations.
Open Scope string_scope.
Open Scope R_scope.

Definition ex_fun1 (f : string) (x : R) : R := if String.eqb f "ln" then ln x else 0.
Definition ex_fun2 (f : string) (x y : R) : R := 0.

Lemma ex_fun1_ln : forall x, ex_fun1 "ln" x = ln x.
Proof. reflexivity. Qed.

(* a converged row: calcite present (0.01 mol) exactly at its target *)
Definition ex_env (moles f : R) : env := fun k =>
  if String.eqb k "convergence_tolerance" then 1 / 100000000
  else if String.eqb k "LOG_10" then ln 10
  else if String.eqb k "MIN_RELATED_SURFACE" then Q2R c_MIN_RELATED_SURFACE
  else if String.eqb k "ineq_tol" then Q2R c_ineq_tol
  else if String.eqb k "iterations" then 3
  else if String.eqb k "converge" then 1
  else if String.eqb k "x.moles" then moles
  else if String.eqb k "x.f" then f
  else if String.eqb k "residual" then f * ln 10
  else 0.

Ltac q2r := unfold Q2R in *; cbn [Qnum Qden] in *.

Example row_env_satisfiable : row_env ex_fun1 ex_fun2 (ex_env (1 / 100) 0).
Proof.
  unfold row_env, ex_env, c_convergence_tolerance, c_TRUE, c_FALSE, c_LOG_10. cbn. q2r.
  repeat split; try lra. unfold ex_fun1. cbn. f_equal. lra.
Qed.

Example pp_state_hypotheses_satisfiable :
  let e := ex_env (1 / 100) 0 in
  row_env ex_fun1 ex_fun2 e /\
  e "x.pp_assemblage_comp_ptr.add_formula.size" = 0 /\
  e "x.dissolve_only" = Q2R c_FALSE /\
  e "residual" = eden ex_fun1 ex_fun2 e res_pp_residual /\
  keeps ex_fun1 ex_fun2 "converge" res_pp e /\
  keeps ex_fun1 ex_fun2 "remove_unstable_phases" chk_pp e /\
  keeps ex_fun1 ex_fun2 "called:error_msg" chk_pp e.
Proof.
  cbv zeta. split; [apply row_env_satisfiable |].
  unfold keeps, res_pp, chk_pp, res_pp_residual, c_FALSE, ex_env. cbn. q2r.
  repeat split; intros; try lra.
Qed.

(* an absent phase below its target (f = target - SI = 0.3 > 0, no moles) is a converged row as well *)
Example pp_state_absent_satisfiable :
  let e := ex_env 0 (3 / 10) in
  keeps ex_fun1 ex_fun2 "converge" res_pp e /\
  keeps ex_fun1 ex_fun2 "remove_unstable_phases" chk_pp e /\
  keeps ex_fun1 ex_fun2 "called:error_msg" chk_pp e.
Proof.
  cbv zeta. pose proof ln10_gt_2 as HL.
  unfold keeps, res_pp, chk_pp, ex_env. cbn. q2r.
  repeat split; intros; try lra.
Qed.

(* exchanger row: 0.1 eq of sites, all occupied *)
Example exch_hypotheses_satisfiable :
  let e := upd (ex_env (1 / 10) (1 / 10)) "residual" 0 in
  e "residual" = eden ex_fun1 ex_fun2 e res_exch_residual /\
  keeps ex_fun1 ex_fun2 "converge" res_exch e /\
  e "x.moles" > e "MIN_RELATED_SURFACE".
Proof.
  cbv zeta. unfold keeps, res_exch, res_exch_residual, ex_env, upd, c_MIN_RELATED_SURFACE. cbn. q2r.
  rewrite Rabs_R0. repeat split; intros; try lra.
Qed.

(* solid solution component lists with a non-zero entry exist; Guggenheim hypotheses: 0.7 / 0.3 mol, no gap *)
Example ss_hypotheses_satisfiable :
  (exists m, In m [3 / 10; 0; 7 / 10] /\ m <> 0) /\
  let e : env := fun k =>
    if String.eqb k "LOG_10" then ln 10
    else if String.eqb k "ss_ptr.total_moles" then 1
    else if String.eqb k "ss_ptr.ss_comps[0].moles" then 7 / 10
    else if String.eqb k "ss_ptr.ss_comps[1].moles" then 3 / 10
    else if String.eqb k "ss_ptr.a0" then 5 else 0 in
  e "LOG_10" <> 0 /\ e "ss_ptr.total_moles" <> 0 /\
  e "ss_ptr.total_moles" = e "ss_ptr.ss_comps[0].moles" + e "ss_ptr.ss_comps[1].moles" /\
  ~ (e "ss_ptr.miscibility" <> 0 /\ e "ss_ptr.ss_comps[1].moles" / e "ss_ptr.total_moles" > e "ss_ptr.xb1"
     /\ e "ss_ptr.ss_comps[1].moles" / e "ss_ptr.total_moles" < e "ss_ptr.xb2").
Proof.
  split.
  - exists (3 / 10). split.
    + left. reflexivity.
    + lra.
  - cbv zeta. cbn. pose proof ln10_gt_2. repeat split; try lra.
Qed.

(* the model() skeleton: a state in which the final pass leaves through `break` with stop_program unset *)
Example model_exit_satisfiable :
  let e : env := fun k => if String.eqb k "residuals()" then Q2R c_CONVERGED
                          else if String.eqb k "check_residuals()" then Q2R c_OK else 0 in
  ~ cden ex_fun1 ex_fun2 e model_while /\
  wp ex_fun1 ex_fun2 model_tail e (fun e' fl => fl = FBreak /\ e' "stop_program" <> Q2R c_TRUE).
Proof.
  cbv zeta. unfold model_while, model_tail, c_CONVERGED, c_OK, c_TRUE. cbn. q2r. split.
  - intros [H | H]; [apply H; reflexivity | lra].
  - repeat split; intros; try lra; try tauto.
Qed.
