(* C03 — deep embedding of the small C++ subset that the translator (translator/c03_gen.py) emits,
   and its semantics over the reals.

   expr  : arithmetic over named program variables (canonical access paths such as "x.moles")
   cond  : C conditions
   stmt  : if / sequence / assignment / opaque call / break / continue / return / opaque loop

   Semantics: [eden] and [cden] evaluate expressions / conditions in a valuation [env : string -> R];
   [wp s env K] is the weakest-precondition transformer of the (deterministic) execution of [s] from [env]:
   it holds iff the execution ends in a state/flow satisfying [K].  Opaque calls are recorded in the
   state (variable "called:<name>" becomes 1) and opaque loops are skipped (the theorems that use a
   statement with a loop say so).  *)
From Coq Require Import QArith Reals String List Qreals.
Import ListNotations.
Open Scope string_scope.

Inductive expr : Type :=
| EVar (v : string)
| ENum (q : Q)
| EAdd (a b : expr) | ESub (a b : expr) | EMul (a b : expr) | EDiv (a b : expr)
| ENeg (a : expr) | EAbs (a : expr)
| EFun1 (f : string) (a : expr)
| EFun2 (f : string) (a b : expr).

Inductive cond : Type :=
| CLt (a b : expr) | CLe (a b : expr) | CGt (a b : expr) | CGe (a b : expr)
| CEq (a b : expr) | CNe (a b : expr)
| CAnd (c d : cond) | COr (c d : cond) | CNot (c : cond)
| CNz (a : expr)
| CEqual (a b eps : expr).           (* Phreeqc::equal(a, b, eps) *)

Inductive stmt : Type :=
| SSkip
| SSeq (s t : stmt)
| SIf (c : cond) (s t : stmt)
| SAssign (v : string) (e : expr)
| SCall (f : string)
| SBreak | SContinue
| SReturn (e : expr)
| SLoop (body : stmt).

(* one store_mb(&source, &target, coef) call: target += coef * source whenever the sums are evaluated *)
Inductive fterm : Type := FT (target source : string) (coef : expr) (in_token_loop : bool).

Definition env := string -> R.

Definition upd (e : env) (v : string) (x : R) : env :=
  fun k => if String.eqb k v then x else e k.

Section Sem.
  Open Scope R_scope.
  (* interpretation of the libm functions that may occur (log10, ln, exp, sqrt, pow): a parameter of the
     semantics; theorems that need a property of one of them state it as a hypothesis *)
  Variable fun1 : string -> R -> R.
  Variable fun2 : string -> R -> R -> R.

  Fixpoint eden (e : env) (x : expr) : R :=
    match x with
    | EVar v => e v
    | ENum q => Q2R q
    | EAdd a b => eden e a + eden e b
    | ESub a b => eden e a - eden e b
    | EMul a b => eden e a * eden e b
    | EDiv a b => eden e a / eden e b
    | ENeg a => - eden e a
    | EAbs a => Rabs (eden e a)
    | EFun1 f a => fun1 f (eden e a)
    | EFun2 f a b => fun2 f (eden e a) (eden e b)
    end.

  Fixpoint cden (e : env) (c : cond) : Prop :=
    match c with
    | CLt a b => eden e a < eden e b
    | CLe a b => eden e a <= eden e b
    | CGt a b => eden e a > eden e b
    | CGe a b => eden e a >= eden e b
    | CEq a b => eden e a = eden e b
    | CNe a b => eden e a <> eden e b
    | CAnd c d => cden e c /\ cden e d
    | COr c d => cden e c \/ cden e d
    | CNot c => ~ cden e c
    | CNz a => eden e a <> 0
    | CEqual a b eps => Rabs (eden e a - eden e b) <= eden e eps
    end.

  Inductive flow : Type := FNormal | FBreak | FContinue | FReturn (v : R).

  Fixpoint wp (s : stmt) (e : env) (K : env -> flow -> Prop) : Prop :=
    match s with
    | SSkip => K e FNormal
    | SSeq a b => wp a e (fun e' fl => match fl with FNormal => wp b e' K | _ => K e' fl end)
    | SIf c a b => (cden e c -> wp a e K) /\ (~ cden e c -> wp b e K)
    | SAssign v x => K (upd e v (eden e x)) FNormal
    | SCall f => K (upd e ("called:" ++ f) 1) FNormal
    | SBreak => K e FBreak
    | SContinue => K e FContinue
    | SReturn x => K e (FReturn (eden e x))
    | SLoop _ => K e FNormal
    end.

  (* wp is monotone in the post-condition *)
  Lemma wp_mono : forall s e (K K' : env -> flow -> Prop),
      (forall e' fl, K e' fl -> K' e' fl) -> wp s e K -> wp s e K'.
  Proof.
    induction s; intros en K K' HK H; simpl in *; auto.
    - eapply IHs1; [| exact H]. intros e' fl; destruct fl; auto. intro H1. eapply IHs2; eauto.
    - destruct H as [H1 H2]. split; intro Hc; [eapply IHs1 | eapply IHs2]; eauto.
  Qed.

  (* and, classically, total: every execution ends somewhere ([wp s e (fun _ _ => True)]) — not needed below *)
End Sem.

(* Boolean syntactic helpers used as vm_compute-checked side conditions on generated terms *)
Fixpoint has_loop (s : stmt) : bool :=
  match s with
  | SLoop _ => true
  | SSeq a b | SIf _ a b => has_loop a || has_loop b
  | _ => false
  end.

Fixpoint assigns (v : string) (s : stmt) : bool :=
  match s with
  | SAssign w _ => String.eqb v w
  | SSeq a b | SIf _ a b => assigns v a || assigns v b
  | SLoop a => assigns v a
  | _ => false
  end.
