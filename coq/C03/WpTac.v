(* C03 — lazy stepping through Syntax.wp: one statement at a time, deciding each `if` from the hypotheses where possible,
   so that the continuation is never duplicated (a fragment with n consecutive ifs has 2^n paths but usually one live one). *)
From Coq Require Import QArith Reals String List Qreals Lra Bool.
Require Import IPV.C03.Syntax.
Import ListNotations.
Open Scope string_scope.
Open Scope R_scope.
Ltac q2r := unfold Q2R in *; cbn [Qnum Qden] in *.
Section T.
  Variable fun1 : string -> R -> R.
  Variable fun2 : string -> R -> R -> R.
  Notation wp := (wp fun1 fun2).
  Notation cden := (cden fun1 fun2).
  Notation eden := (eden fun1 fun2).
  Lemma wp_seq_intro : forall a b e K,
      wp a e (fun e' fl => match fl with FNormal => wp b e' K | _ => K e' fl end) -> wp (SSeq a b) e K.
  Proof. intros; exact H. Qed.
  Lemma wp_if_false : forall c a b e K, ~ cden e c -> wp b e K -> wp (SIf c a b) e K.
  Proof. intros c a b e K Hc H. simpl. split; intro; [contradiction | assumption]. Qed.
  Lemma wp_if_true : forall c a b e K, cden e c -> wp a e K -> wp (SIf c a b) e K.
  Proof. intros c a b e K Hc H. simpl. split; intro; [assumption | contradiction]. Qed.
  Lemma wp_if_both : forall c a b e K, (cden e c -> wp a e K) -> (~ cden e c -> wp b e K) -> wp (SIf c a b) e K.
  Proof. intros. simpl. split; assumption. Qed.
  Lemma wp_assign_intro : forall v x e (K : env -> flow -> Prop), K (upd e v (eden e x)) FNormal -> wp (SAssign v x) e K.
  Proof. intros; assumption. Qed.
  Lemma wp_call_intro : forall f e (K : env -> flow -> Prop), K (upd e ("called:" ++ f) 1) FNormal -> wp (SCall f) e K.
  Proof. intros; assumption. Qed.
  Lemma wp_skip_intro : forall e (K : env -> flow -> Prop), K e FNormal -> wp SSkip e K.
  Proof. intros; assumption. Qed.
  Lemma wp_loop_intro : forall s e (K : env -> flow -> Prop), K e FNormal -> wp (SLoop s) e K.
  Proof. intros; assumption. Qed.
End T.

Ltac wp_side := cbn; q2r; intuition lra.
Ltac wp_step :=
  lazymatch goal with
  | |- Syntax.wp _ _ (SSeq _ _) _ _ => apply wp_seq_intro
  | |- Syntax.wp _ _ (SIf _ _ _) _ _ =>
      first [ apply wp_if_false; [ solve [ wp_side ] | ]
            | apply wp_if_true; [ solve [ wp_side ] | ]
            | apply wp_if_both; intro ]
  | |- Syntax.wp _ _ (SAssign _ _) _ _ => apply wp_assign_intro; cbv beta iota
  | |- Syntax.wp _ _ (SCall _) _ _ => apply wp_call_intro; cbv beta iota
  | |- Syntax.wp _ _ SSkip _ _ => apply wp_skip_intro; cbv beta iota
  | |- Syntax.wp _ _ (SLoop _) _ _ => apply wp_loop_intro; cbv beta iota
  end.

