(* C03 — a verified symbolic executor for the statement language of Syntax.v.

   [sym s sigma] executes [s] on a symbolic store (variable -> expression over the initial state) and returns a
   decision tree whose inner nodes are the (substituted) conditions met on the way and whose leaves carry the
   final store and the way the fragment was left.  [sym_sound] : if the tree satisfies a post-condition then so
   does the weakest precondition of Syntax.wp.  The tree is computed by vm_compute on the regenerated fragments,
   so long straight-line fragments (ss_binary: ~40 assignments) stay tractable. *)
From Coq Require Import QArith Reals String List Qreals FunctionalExtensionality.
Require Import IPV.C03.Syntax.
Import ListNotations.
Open Scope string_scope.

Definition store := list (string * expr).

Fixpoint lookup (s : store) (v : string) : expr :=
  match s with
  | [] => EVar v
  | (w, x) :: r => if String.eqb v w then x else lookup r v
  end.

Fixpoint esubst (s : store) (x : expr) : expr :=
  match x with
  | EVar v => lookup s v
  | ENum q => ENum q
  | EAdd a b => EAdd (esubst s a) (esubst s b)
  | ESub a b => ESub (esubst s a) (esubst s b)
  | EMul a b => EMul (esubst s a) (esubst s b)
  | EDiv a b => EDiv (esubst s a) (esubst s b)
  | ENeg a => ENeg (esubst s a)
  | EAbs a => EAbs (esubst s a)
  | EFun1 f a => EFun1 f (esubst s a)
  | EFun2 f a b => EFun2 f (esubst s a) (esubst s b)
  end.

Fixpoint csubst (s : store) (c : cond) : cond :=
  match c with
  | CLt a b => CLt (esubst s a) (esubst s b)
  | CLe a b => CLe (esubst s a) (esubst s b)
  | CGt a b => CGt (esubst s a) (esubst s b)
  | CGe a b => CGe (esubst s a) (esubst s b)
  | CEq a b => CEq (esubst s a) (esubst s b)
  | CNe a b => CNe (esubst s a) (esubst s b)
  | CAnd c d => CAnd (csubst s c) (csubst s d)
  | COr c d => COr (csubst s c) (csubst s d)
  | CNot c => CNot (csubst s c)
  | CNz a => CNz (esubst s a)
  | CEqual a b e => CEqual (esubst s a) (esubst s b) (esubst s e)
  end.

Inductive sflow : Type := SNormal | SBrk | SCont | SRet (x : expr).

Inductive tree : Type :=
| TLeaf (s : store) (fl : sflow)
| TNode (c : cond) (t f : tree).

Fixpoint graft (t : tree) (k : store -> tree) : tree :=
  match t with
  | TLeaf s SNormal => k s
  | TLeaf s fl => TLeaf s fl
  | TNode c a b => TNode c (graft a k) (graft b k)
  end.

Fixpoint sym (st : stmt) (s : store) : tree :=
  match st with
  | SSkip => TLeaf s SNormal
  | SSeq a b => graft (sym a s) (fun s' => sym b s')
  | SIf c a b => TNode (csubst s c) (sym a s) (sym b s)
  | SAssign v x => TLeaf ((v, esubst s x) :: s) SNormal
  | SCall f => TLeaf (("called:" ++ f, ENum 1) :: s) SNormal
  | SBreak => TLeaf s SBrk
  | SContinue => TLeaf s SCont
  | SReturn x => TLeaf s (SRet (esubst s x))
  | SLoop _ => TLeaf s SNormal
  end.

Section Sound.
  Variable fun1 : string -> R -> R.
  Variable fun2 : string -> R -> R -> R.
  Notation eden := (eden fun1 fun2).
  Notation cden := (cden fun1 fun2).
  Notation wp := (wp fun1 fun2).

  (* the concrete state denoted by a symbolic store over the initial state e *)
  Definition apply (s : store) (e : env) : env := fun v => eden e (lookup s v).

  Definition flow_of (e : env) (fl : sflow) : flow :=
    match fl with SNormal => FNormal | SBrk => FBreak | SCont => FContinue | SRet x => FReturn (eden e x) end.

  Fixpoint tdenS (t : tree) (e : env) (K : store -> sflow -> Prop) : Prop :=
    match t with
    | TLeaf s fl => K s fl
    | TNode c a b => (cden e c -> tdenS a e K) /\ (~ cden e c -> tdenS b e K)
    end.

  Definition tden (t : tree) (e : env) (K : env -> flow -> Prop) : Prop :=
    tdenS t e (fun s fl => K (apply s e) (flow_of e fl)).

  Lemma esubst_sound : forall s e x, eden e (esubst s x) = eden (apply s e) x.
  Proof. induction x; simpl; try congruence; reflexivity. Qed.

  Lemma csubst_sound : forall s e c, cden e (csubst s c) <-> cden (apply s e) c.
  Proof.
    induction c; simpl; rewrite ?esubst_sound; try tauto.
  Qed.

  Lemma apply_nil : forall e, apply [] e = e.
  Proof. intros e. apply functional_extensionality. intro v. reflexivity. Qed.

  Lemma apply_cons : forall s e v x, apply ((v, esubst s x) :: s) e = upd (apply s e) v (eden (apply s e) x).
  Proof.
    intros s e v x. apply functional_extensionality. intro k. unfold apply, upd.
    cbn [lookup]. destruct (String.eqb k v); [apply esubst_sound | reflexivity].
  Qed.

  Lemma apply_call : forall s e f, apply (("called:" ++ f, ENum 1) :: s) e = upd (apply s e) ("called:" ++ f) 1%R.
  Proof.
    intros s e f. apply functional_extensionality. intro k. unfold apply, upd.
    cbn [lookup]. destruct (String.eqb k ("called:" ++ f)); [| reflexivity].
    cbn [Syntax.eden]. unfold Q2R. cbn [Qnum Qden]. rewrite Rinv_1. apply Rmult_1_r.
  Qed.

  Lemma tdenS_mono : forall t e (K K' : store -> sflow -> Prop),
      (forall s fl, K s fl -> K' s fl) -> tdenS t e K -> tdenS t e K'.
  Proof.
    induction t; intros e K K' HK H; simpl in *; auto.
    destruct H as [H1 H2]. split; intro Hc; [eapply IHt1 | eapply IHt2]; eauto.
  Qed.

  Lemma graft_den : forall t k e (K : store -> sflow -> Prop),
      tdenS (graft t k) e K ->
      tdenS t e (fun s fl => match fl with SNormal => tdenS (k s) e K | _ => K s fl end).
  Proof.
    induction t; intros k e K H; simpl in *.
    - destruct fl; simpl in *; assumption.
    - destruct H as [H1 H2]. split; intro Hc; [apply IHt1 | apply IHt2]; auto.
  Qed.

  Theorem sym_sound : forall st s e (K : env -> flow -> Prop),
      tden (sym st s) e K -> wp st (apply s e) K.
  Proof.
    induction st; intros s en K H; unfold tden in *; cbn [sym tdenS Syntax.wp flow_of] in *.
    - exact H.
    - apply graft_den in H. apply IHst1. unfold tden.
      eapply tdenS_mono; [| exact H]. intros s' fl Hfl. destruct fl; cbn [flow_of] in *; try exact Hfl.
      apply IHst2. exact Hfl.
    - destruct H as [H1 H2]. split; intro Hc.
      + apply IHst1. apply H1. apply csubst_sound. exact Hc.
      + apply IHst2. apply H2. intro Hc'. apply Hc. apply csubst_sound. exact Hc'.
    - rewrite <- apply_cons. exact H.
    - rewrite <- apply_call. exact H.
    - exact H.
    - exact H.
    - rewrite <- esubst_sound. exact H.
    - exact H.
  Qed.

  Corollary sym_sound0 : forall st e (K : env -> flow -> Prop),
      tden (sym st []) e K -> wp st e K.
  Proof. intros st e K H. rewrite <- (apply_nil e). apply sym_sound. exact H. Qed.
End Sound.
