(* C03 — soundness of the executable checker w.r.t. the property predicate. *)
From Coq Require Import QArith Reals Qreals List Bool Lra.
From Interval Require Import Tactic.
Require Import IPV.C03.Spec.
Import ListNotations.

Lemma Qle_bool_R : forall x y, Qle_bool x y = true -> (Q2R x <= Q2R y)%R.
Proof. intros x y H. apply Qle_Rle. apply Qle_bool_iff. exact H. Qed.

Lemma Qlt_bool_R : forall x y, Qlt_bool x y = true -> (Q2R x < Q2R y)%R.
Proof.
  intros x y H. unfold Qlt_bool in H. apply negb_true_iff in H.
  apply Qlt_Rlt. apply Qnot_le_lt. intro Hc. apply Qle_bool_iff in Hc. congruence.
Qed.

Lemma Qlt_bool_R_false : forall x y, Qlt_bool x y = false -> ~ (Q2R x < Q2R y)%R.
Proof.
  intros x y H. unfold Qlt_bool in H. apply negb_false_iff in H.
  apply Qle_bool_R in H. lra.
Qed.

Lemma Qeq_bool_R : forall x y, Qeq_bool x y = true -> Q2R x = Q2R y.
Proof. intros x y H. apply Qeq_eqR. apply Qeq_bool_iff. exact H. Qed.

Lemma Q2R_0 : Q2R 0 = 0%R.
Proof. unfold Q2R; simpl; lra. Qed.
Lemma Q2R_1 : Q2R 1 = 1%R.
Proof. unfold Q2R; simpl; lra. Qed.
Lemma Q2R_tolSI : Q2R qtolSI = tolSI.
Proof. unfold Q2R, qtolSI, tolSI; simpl; lra. Qed.
Lemma Q2R_tolSite : Q2R qtolSite = tolSite.
Proof. unfold Q2R, qtolSite, tolSite; simpl; lra. Qed.
Lemma Q2R_tolAct : Q2R qtolAct = tolAct.
Proof. unfold Q2R, qtolAct, tolAct; simpl; lra. Qed.

Ltac q2r_norm :=
  repeat (rewrite ?Q2R_plus, ?Q2R_minus, ?Q2R_mult, ?Q2R_0, ?Q2R_1, ?Q2R_tolSI, ?Q2R_tolSite, ?Q2R_tolAct in * ).

Ltac boolsplit :=
  repeat match goal with
         | H : (_ && _)%bool = true |- _ => apply andb_true_iff in H; destruct H
         end.

Ltac to_R :=
  repeat match goal with
         | H : Qle_bool _ _ = true |- _ => apply Qle_bool_R in H
         | H : Qlt_bool _ _ = true |- _ => apply Qlt_bool_R in H
         | H : Qlt_bool _ _ = false |- _ => apply Qlt_bool_R_false in H
         | H : Qeq_bool _ _ = true |- _ => apply Qeq_bool_R in H
         end; q2r_norm.

Lemma pp_ok_sound : forall p, pp_ok p = true -> pp_valid p.
Proof.
  intros [k t i m s] H. unfold pp_ok, pp_valid, pp_validR in *. simpl in *.
  boolsplit. destruct k.
  - destruct (Qlt_bool 0 m) eqn:E; boolsplit; to_R; split; [lra| |lra|].
    + split; [intros _; apply Rabs_le; lra | intro Hn; lra].
    + split; [intro Hp; lra | intros _; split; lra].
  - boolsplit.
    destruct (Qlt_bool 0 m) eqn:E1; destruct (Qlt_bool m i) eqn:E2; to_R;
      (split; [lra | split; [lra | split; intro; lra]]).
  - boolsplit. destruct (Qlt_bool i m) eqn:E1; to_R;
      (split; [lra | split; [lra | split; [lra | intro; lra]]]).
  - boolsplit. to_R. split; [lra | apply Rabs_le; lra].
Qed.

Lemma site_ok_sound : forall s, site_ok s = true -> site_valid s.
Proof.
  intros [d f] H. unfold site_ok, site_valid, site_validR in *. simpl in *.
  boolsplit. to_R. apply Rabs_le. lra.
Qed.

Lemma sumQ_R : forall l, Q2R (sumQ l) = sumR (map Q2R l).
Proof. induction l; simpl; [apply Q2R_0 | rewrite Q2R_plus, IHl; reflexivity]. Qed.

Lemma map_fst_Q2R : forall (l : list (Q * Q)),
    map fst (map (fun c => (Q2R (fst c), Q2R (snd c))) l) = map Q2R (map fst l).
Proof. induction l; simpl; congruence. Qed.
Lemma map_snd_Q2R : forall (l : list (Q * Q)),
    map snd (map (fun c => (Q2R (fst c), Q2R (snd c))) l) = map Q2R (map snd l).
Proof. induction l; simpl; congruence. Qed.

Lemma ss_ok_sound : forall s, ss_ok s = true -> ss_valid s.
Proof.
  intros [ideal comps] H. unfold ss_ok, ss_valid, ss_validR in *. simpl in *.
  rewrite map_fst_Q2R, map_snd_Q2R, <- !sumQ_R.
  boolsplit. split.
  - rewrite Forall_map. apply Forall_forall. intros c Hc.
    rewrite forallb_forall in H. specialize (H c Hc). simpl. to_R. exact H.
  - intro Hi. subst ideal.
    destruct (Qlt_bool 0 (sumQ (map fst comps))) eqn:E.
    + split; [intros _ | intro Hn; to_R; lra].
      rewrite Forall_map. apply Forall_forall. intros c Hc.
      rewrite forallb_forall in H0. specialize (H0 c Hc). simpl in *.
      boolsplit. to_R. apply Rabs_le. lra.
    + split; [intro Hp; to_R; lra | intros _; to_R; lra].
Qed.


(* ---- stored solid-solution state *)

Lemma Q2R_tolFrac : Q2R qtolFrac = tolFrac.
Proof. unfold Q2R, qtolFrac, tolFrac; simpl; lra. Qed.

Lemma ln10_between : (Q2R ln10_lo < ln 10 < Q2R ln10_hi)%R.
Proof. unfold Q2R, ln10_lo, ln10_hi. simpl. split; interval with (i_prec 90). Qed.

Lemma Qabs_le_R : forall x t, Qabs_le x t = true -> (Rabs (Q2R x) <= Q2R t)%R.
Proof.
  intros x t H. unfold Qabs_le in H. apply andb_true_iff in H. destruct H as [H1 H2].
  apply Qle_bool_R in H1. apply Qle_bool_R in H2. rewrite Q2R_opp in H2. apply Rabs_le. lra.
Qed.

(* |l*L - g| <= t at both ends of an interval for L  ==>  at every L inside (the expression is affine in L) *)
Lemma affine_between : forall l g t lo hi L,
    (lo <= L <= hi)%R -> (Rabs (l * lo - g) <= t)%R -> (Rabs (l * hi - g) <= t)%R -> (Rabs (l * L - g) <= t)%R.
Proof.
  intros l g t lo hi L [HL1 HL2] H1 H2.
  assert (H1' : (- t <= l * lo - g <= t)%R) by (revert H1; unfold Rabs; destruct (Rcase_abs _); lra).
  assert (H2' : (- t <= l * hi - g <= t)%R) by (revert H2; unfold Rabs; destruct (Rcase_abs _); lra).
  apply Rabs_le. destruct (Rle_lt_dec 0 l) as [Hl|Hl].
  - assert (l * lo <= l * L)%R by (apply Rmult_le_compat_l; lra).
    assert (l * L <= l * hi)%R by (apply Rmult_le_compat_l; lra). lra.
  - assert (l * L <= l * lo)%R by (apply Rmult_le_compat_neg_l; lra).
    assert (l * hi <= l * L)%R by (apply Rmult_le_compat_neg_l; lra). lra.
Qed.

Lemma sumQ_map_R : forall (A : Type) (f : A -> Q) (l : list A), Q2R (sumQ (map f l)) = sumR (map (fun a => Q2R (f a)) l).
Proof. intros A f l. induction l; simpl; [apply Q2R_0 | rewrite Q2R_plus, IHl; reflexivity]. Qed.

Lemma map_proj : forall (p : T5 -> R) (f : ssx_comp -> Q) (l : list ssx_comp),
    (forall c, p (ssx_tuple c) = Q2R (f c)) -> map p (map ssx_tuple l) = map (fun a => Q2R (f a)) l.
Proof. intros p f l H. induction l; simpl; [reflexivity | rewrite H, IHl; reflexivity]. Qed.

Lemma ssx_ok_sound : forall s, ssx_ok s = true -> ssx_valid s.
Proof.
  intros [ideal gap a0 a1 cs] H. unfold ssx_ok, ssx_valid, ssx_validR in *. simpl in *.
  rewrite (map_proj mol xc_moles), (map_proj fr xc_frac) by reflexivity.
  rewrite <- !sumQ_map_R.
  boolsplit.
  repeat split.
  - rewrite Forall_map. apply Forall_forall. intros c Hc.
    rewrite forallb_forall in H. specialize (H c Hc). to_R. exact H.
  - apply Qabs_le_R in H3. q2r_norm. rewrite Q2R_tolFrac in H3. exact H3.
  - intro Hg. subst gap. rewrite Forall_map. apply Forall_forall. intros c Hc.
    rewrite forallb_forall in H2. specialize (H2 c Hc). apply Qabs_le_R in H2.
    q2r_norm. rewrite Q2R_tolFrac in H2. exact H2.
  - rewrite Forall_map. apply Forall_forall. intros c Hc.
    rewrite forallb_forall in H1. specialize (H1 c Hc). apply Qabs_le_R in H1.
    q2r_norm. exact H1.
  - intro Hi. subst ideal. rewrite Forall_map. apply Forall_forall. intros c Hc.
    rewrite forallb_forall in H0. specialize (H0 c Hc). apply Qeq_bool_R in H0.
    rewrite Q2R_0 in H0. exact H0.
  - intros Hi. subst ideal.
    destruct cs as [|c0 [|c1 [|c2 r]]]; simpl; try exact I.
    boolsplit.
    repeat match goal with Hq : Qabs_le _ _ = true |- _ => apply Qabs_le_R in Hq end.
    q2r_norm. rewrite Q2R_tolFrac in *.
    pose proof ln10_between as [HL1 HL2].
    unfold gugg1, gugg2, ll, fr, ssx_tuple; simpl.
    assert (E3 : Q2R 3 = 3%R) by (unfold Q2R; simpl; lra).
    assert (E4 : Q2R 4 = 4%R) by (unfold Q2R; simpl; lra).
    rewrite E3, E4 in *.
    split; (eapply affine_between; [split; apply Rlt_le; eassumption | eassumption | eassumption]).
Qed.

Lemma forallb_Forall : forall (A : Type) (f : A -> bool) (P : A -> Prop),
    (forall a, f a = true -> P a) -> forall l, forallb f l = true -> Forall P l.
Proof.
  intros A f P HfP l H. apply Forall_forall. intros a Ha.
  rewrite forallb_forall in H. auto.
Qed.

Lemma case_ok_sound : forall c, case_ok c = true -> hetero_valid c.
Proof.
  intros [pps exs sfs sss ssx ssa] H. unfold case_ok, hetero_valid in *. simpl in *. boolsplit.
  repeat split.
  - eapply forallb_Forall; [apply pp_ok_sound | assumption].
  - eapply forallb_Forall; [apply site_ok_sound | assumption].
  - eapply forallb_Forall; [apply site_ok_sound | assumption].
  - eapply forallb_Forall; [apply ss_ok_sound | assumption].
  - eapply forallb_Forall; [apply ssx_ok_sound | assumption].
  - eapply forallb_Forall; [| eassumption]. intros t Ht. cbv beta in Ht. apply Qle_bool_R in Ht.
    unfold tolAbsent. unfold Q2R at 2 in Ht. simpl in Ht. lra.
Qed.

(* non-vacuity: a concrete assemblage state accepted by the checker *)
Example case_ok_example :
  case_ok (CASE [PP KNormal (2#10) (1#100) 0 (158#1000); PP KNormal 0 (1#1000) (12#1000) 0;
                 PP KDissolve 0 (1#100) (97#10000) 0; PP KPrecip 0 (2#100) (2#100) (-(4#10))]
                [SITE (1#100) (1#100)] [SITE (1#1000) (1000000001#1000000000000)]
                [SS true [((6#10000), (6#10)); ((4#10000), (4#10))]]
                [SSX true false 0 0 [SSXC (6#10000) (-(2#10)) (6#10) (-(2#10)) 0; SSXC (4#10000) (-(4#10)) (4#10) (-(4#10)) 0]] [1 # 1000000000000000000000000000]) = true.
Proof. vm_compute. reflexivity. Qed.
