(* C03 — theorems about the fragments regenerated from /repo's current source (Gen_C03_model).
   Every proof here is re-run by every ./check C03; leaf comparisons are semantic (lra / field), so a harmless
   rewrite of the C++ passes and a change of a guard, a tolerance, a sign or a formula does not. *)
From Coq Require Import QArith Reals String List Qreals Lra Bool.
Require Import IPV.C03.Syntax IPV.C03.SymExec IPV.C03.WpTac IPV.C03.Hetero IPV.C03.Spec IPV.Gen.Gen_C03_model.
Import ListNotations.
Open Scope string_scope.
Open Scope R_scope.


(* ln 10 > 2 from the standard library alone (exp 1 <= 3): all that the bounds below need *)
Lemma ln10_gt_2 : 2 < ln 10.
Proof.
  apply exp_lt_inv. rewrite exp_ln by lra.
  replace 2 with (1 + 1) by lra. rewrite exp_plus.
  pose proof exp_le_3 as H3. pose proof (exp_pos 1) as Hp. nra.
Qed.

Lemma scale_lower : forall f L a, 2 < L -> 0 <= a -> - a <= f * L -> - a <= f.
Proof.
  intros f L a HL Ha H. destruct (Rle_lt_dec 0 f) as [Hf|Hf]; [lra|].
  assert (0 < (- f) * (L - 2)) by (apply Rmult_lt_0_compat; lra). nra.
Qed.
Lemma scale_upper : forall f L a, 2 < L -> 0 <= a -> f * L < a -> f < a.
Proof.
  intros f L a HL Ha H. destruct (Rlt_le_dec f 0) as [Hf|Hf]; [lra|].
  assert (0 <= f * (L - 2)) by (apply Rmult_le_pos; lra). nra.
Qed.
Lemma scale_upper_le : forall f L a, 2 < L -> 0 <= a -> f * L <= a -> f <= a.
Proof.
  intros f L a HL Ha H. destruct (Rlt_le_dec f 0) as [Hf|Hf]; [lra|].
  assert (0 <= f * (L - 2)) by (apply Rmult_le_pos; lra). nra.
Qed.

Section Tie.
  Variable fun1 : string -> R -> R.
  Variable fun2 : string -> R -> R -> R.
  (* the only fact used about libm: `log` is the natural logarithm (LOG_10 = log(10.0) in Phreeqc::init) *)
  Hypothesis fun1_ln : forall x, fun1 "ln" x = ln x.

  Notation keeps := (keeps fun1 fun2).
  Notation eden := (eden fun1 fun2).
  Notation wp := (wp fun1 fun2).

  (* the state in which a row of residuals()/check_residuals() is evaluated *)
  Definition row_env (e : env) : Prop :=
    0 < e "convergence_tolerance" <= Q2R c_convergence_tolerance /\
    e "LOG_10" = eden e c_LOG_10 /\
    e "MIN_RELATED_SURFACE" = Q2R c_MIN_RELATED_SURFACE /\
    e "ineq_tol" = Q2R c_ineq_tol /\
    e "iterations" >= 1 /\
    e "converge" = Q2R c_TRUE /\ e "remove_unstable_phases" = Q2R c_FALSE /\ e "called:error_msg" = 0.

  Lemma row_env_log10 : forall e, row_env e -> 2 < e "LOG_10".
  Proof.
    intros e (_ & HL & _). rewrite HL. unfold c_LOG_10. cbn. rewrite fun1_ln.
    replace (Q2R (10 # 1)) with 10 by (q2r; lra). apply ln10_gt_2.
  Qed.

  (* ---------------------------------------------------------------- pure phases *)

  (* x[i]->f as registered by build_pure_phases is  target SI - (log IAP - log K) *)
  Lemma pp_f_is_target_minus_si : forall e toks,
      f_value fun1 fun2 pp_f_terms e toks = e "x.si" - (log_iap toks - e "x.phase.lk").
  Proof.
    intros e toks. unfold f_value, pp_f_terms.
    assert (Ht : sum_tokens fun1 fun2 e
                   [FT "x.f" "x.phase.lk" (ENum (1 # 1)) false; FT "x.f" "x.si" (ENum (1 # 1)) false;
                    FT "x.f" "tok.s.la" (ENeg (EVar "tok.coef")) true] toks = - log_iap toks).
    { induction toks as [|[la c] r IH]; simpl; [lra|].
      simpl in IH. rewrite IH. unfold tok_env, upd. cbn. lra. }
    rewrite Ht. cbn. q2r. lra.
  Qed.

  (* Phases without restriction (also force_equality), no add_formula.  If residuals() left `converge` TRUE and
     check_residuals() neither asked for another pass (remove_unstable_phases) nor reported an error, then with
     f = target - SI:   present  ->  |SI - target| <= 1e-6 ;   always  SI <= target + 1e-6.  *)
  Lemma ok_implies_pp_state : forall e,
      row_env e ->
      e "x.pp_assemblage_comp_ptr.add_formula.size" = 0 ->
      e "x.dissolve_only" = Q2R c_FALSE ->
      e "residual" = eden e res_pp_residual ->
      keeps "converge" res_pp e ->
      keeps "remove_unstable_phases" chk_pp e ->
      keeps "called:error_msg" chk_pp e ->
      (e "x.moles" > 0 -> Rabs (e "x.f") <= tolSI) /\ - tolSI <= e "x.f".
  Proof.
    intros e Hrow Hadd Hdis Hres Hk Hk2 Hk3.
    pose proof (row_env_log10 e Hrow) as HL.
    destruct Hrow as (Htol & _ & _ & _ & Hit & Hc & Hr & Herr).
    unfold keeps, res_pp, chk_pp, res_pp_residual, c_convergence_tolerance, c_TRUE, c_FALSE, tolSI in *.
    cbn in Hk, Hk2, Hk3, Hres, Htol. q2r.
    assert (Hb : (e "x.moles" > 0 -> e "residual" < 100 * e "convergence_tolerance")
                 /\ - e "convergence_tolerance" <= e "residual") by lra.
    clear Hk Hk2 Hk3. rewrite Hres in Hb. destruct Hb as [Hb1 Hb2].
    assert (Hlo : - e "convergence_tolerance" <= e "x.f") by (apply scale_lower with (L := e "LOG_10"); lra).
    split; [intro Hm | lra].
    specialize (Hb1 Hm).
    assert (Hup : e "x.f" < 100 * e "convergence_tolerance") by (apply scale_upper with (L := e "LOG_10"); lra).
    apply Rabs_le. lra.
  Qed.

  (* dissolve_only phases:  present -> SI >= target - 1e-6 ;  some of it dissolved -> SI <= target + 1e-6 *)
  Lemma ok_implies_pp_state_dissolve_only : forall e,
      row_env e ->
      e "x.pp_assemblage_comp_ptr.add_formula.size" = 0 ->
      e "x.dissolve_only" = Q2R c_TRUE ->
      e "residual" = eden e res_pp_residual ->
      keeps "converge" res_pp e ->
      (e "x.moles" > 0 -> e "x.f" <= tolSI) /\
      (e "x.pp_assemblage_comp_ptr.initial_moles" - e "x.moles" > 0 -> - tolSI <= e "x.f").
  Proof.
    intros e Hrow Hadd Hdis Hres Hk.
    pose proof (row_env_log10 e Hrow) as HL.
    destruct Hrow as (Htol & _ & _ & _ & Hit & Hc & Hr & Herr).
    unfold keeps, res_pp, res_pp_residual, c_convergence_tolerance, c_TRUE, c_FALSE, tolSI in *.
    cbn in Hk, Hres, Htol. q2r.
    assert (Hb : (e "x.moles" > 0 -> e "residual" <= e "convergence_tolerance")
                 /\ (e "x.pp_assemblage_comp_ptr.initial_moles" - e "x.moles" > 0 ->
                     - e "convergence_tolerance" <= e "residual")) by lra.
    clear Hk. rewrite Hres in Hb. destruct Hb as [Hb1 Hb2].
    split; intro Hm.
    - specialize (Hb1 Hm).
      assert (e "x.f" <= e "convergence_tolerance") by (apply scale_upper_le with (L := e "LOG_10"); lra). lra.
    - specialize (Hb2 Hm).
      assert (- e "convergence_tolerance" <= e "x.f") by (apply scale_lower with (L := e "LOG_10"); lra). lra.
  Qed.

  (* precipitate_only: model() works on the amount with the initial (inert) part taken out and puts it back:
     the amount after the step is the initial amount plus what the solver precipitated (a >= 0 is the solver's
     constraint "a phase may not go negative", see ok_implies_pp_state for its SI). *)
  Lemma precipitate_only_inert : forall e a,
      e "x.type" = e "PP" ->
      e "x.pp_assemblage_comp_ptr.precipitate_only" <> 0 ->
      wp set_inert e (fun e1 _ =>
        e1 "x.moles" = 0 /\
        wp unset_inert (upd e1 "x.moles" a) (fun e2 _ => e2 "x.moles" = a + e "x.moles" /\ e2 "x.inert_moles" = 0)).
  Proof.
    intros e a Hty Hp. unfold set_inert, unset_inert. cbn. q2r.
    repeat split; intros; try lra; try contradiction; try tauto.
  Qed.

  (* a phase whose whole amount is removed by the step is stored as the literal 0, and that is what is saved *)
  Lemma absent_is_exact_zero : forall e,
      e "x.dissolve_only" = Q2R c_FALSE ->
      Rabs (e "x.moles" - e "delta") <= e "ineq_tol" ->
      wp reset_pp e (fun e1 _ =>
        e1 "x.moles" = 0 /\
        (e1 "x.type" = e1 "PP" -> wp save_pp e1 (fun e2 _ => e2 save_pp_moles_var = 0))).
  Proof.
    intros e Hd Heq. unfold reset_pp, save_pp, save_pp_moles_var, c_FALSE in *. cbn. q2r.
    repeat split; intros; try lra; try contradiction; try tauto.
  Qed.

  Lemma equal_sem : forall e,
      wp equal_body e (fun _ fl => (fl = FReturn (Q2R c_TRUE) <-> Rabs (e "a" - e "b") <= e "eps")
                                   /\ (fl = FReturn (Q2R c_TRUE) \/ fl = FReturn (Q2R c_FALSE))).
  Proof.
    intros e. unfold equal_body, c_TRUE, c_FALSE. cbn. q2r. split; intro H.
    - split; [split; auto | left; reflexivity].
    - split; [split; intro H1; [| contradiction] | right; reflexivity].
      inversion H1. lra.
  Qed.

  (* ---------------------------------------------------------------- exchangers and surfaces *)

  Lemma site_totals_kept_exch : forall e,
      row_env e ->
      e "residual" = eden e res_exch_residual ->
      keeps "converge" res_exch e ->
      e "x.moles" > e "MIN_RELATED_SURFACE" ->
      Rabs (e "x.f" - e "x.moles") <= tolSite * e "x.moles".
  Proof.
    intros e Hrow Hres Hk Hm.
    destruct Hrow as (Htol & _ & Hmin & _ & Hit & Hc & Hr & Herr).
    unfold keeps, res_exch, res_exch_residual, c_convergence_tolerance, c_MIN_RELATED_SURFACE, c_TRUE, tolSite in *.
    cbn in Hk, Hres, Htol, Hmin. q2r.
    assert (Hb : Rabs (e "residual") <= e "convergence_tolerance" * e "x.moles") by lra.
    clear Hk. rewrite Hres in Hb.
    replace (e "x.f" - e "x.moles") with (- (e "x.moles" - e "x.f")) by lra. rewrite Rabs_Ropp.
    assert (e "convergence_tolerance" * e "x.moles" <= 1 / 100000000 * e "x.moles")
      by (apply Rmult_le_compat_r; lra).
    lra.
  Qed.

  (* surfaces have an additional absolute escape (|residual| < ineq_tol); for 1e-7 mol of sites or more it is
     inside the relative 1e-8 *)
  Lemma site_totals_kept_surf : forall e,
      row_env e ->
      e "residual" = eden e res_surf_residual ->
      keeps "converge" res_surf e ->
      e "x.moles" >= 1 / 10000000 ->
      Rabs (e "x.f" - e "x.moles") <= tolSite * e "x.moles".
  Proof.
    intros e Hrow Hres Hk Hm.
    destruct Hrow as (Htol & _ & Hmin & Hineq & Hit & Hc & Hr & Herr).
    unfold keeps, res_surf, res_surf_residual, c_convergence_tolerance, c_MIN_RELATED_SURFACE, c_ineq_tol, c_TRUE, tolSite in *.
    cbn in Hk, Hres, Htol, Hmin, Hineq. q2r.
    assert (Hb : Rabs (e "residual") <= e "convergence_tolerance" * e "x.moles"
                 \/ Rabs (e "residual") < e "ineq_tol") by lra.
    clear Hk. rewrite Hres in Hb.
    replace (e "x.f" - e "x.moles") with (- (e "x.moles" - e "x.f")) by lra. rewrite Rabs_Ropp.
    assert (e "convergence_tolerance" * e "x.moles" <= 1 / 100000000 * e "x.moles")
      by (apply Rmult_le_compat_r; lra).
    destruct Hb as [Hb|Hb]; lra.
  Qed.

  (* ---------------------------------------------------------------- model(): when does it return OK *)

  Lemma model_exit_ok : forall e,
      (~ cden fun1 fun2 e model_while ->
         e "residuals()" = Q2R c_CONVERGED /\ e "remove_unstable_phases" <> Q2R c_TRUE) /\
      wp model_tail e (fun e' fl =>
         fl = FBreak -> e' "stop_program" <> Q2R c_TRUE ->
         e "check_residuals()" <> Q2R c_ERROR /\ e "remove_unstable_phases" = Q2R c_FALSE) /\
      wp model_ret e (fun _ fl =>
         (fl = FReturn (Q2R c_OK) \/ fl = FReturn (Q2R c_ERROR)) /\
         (fl = FReturn (Q2R c_OK) -> e "stop_program" <> Q2R c_TRUE)).
  Proof.
    intros e. unfold model_while, model_tail, model_ret, c_CONVERGED, c_TRUE, c_FALSE, c_ERROR, c_OK. cbn. q2r.
    split; [| split].
    - intro H. split; [| tauto].
      destruct (Req_dec (e "residuals()") (2 * / 1)); tauto.
    - repeat split; intros; try discriminate; try tauto; try lra.
    - split; intro Hs; split.
      + right; reflexivity.
      + intro H1; inversion H1; lra.
      + left; reflexivity.
      + intros _; exact Hs.
  Qed.

  (* ---------------------------------------------------------------- solid solutions *)

  Lemma ss_acc_spec : forall e m,
      wp ss_acc (upd e ss_bind_var m)
         (fun e' _ => e' "n_tot" = e "n_tot" + clamp (e "MIN_TOTAL_SS") m /\ e' "MIN_TOTAL_SS" = e "MIN_TOTAL_SS").
  Proof.
    intros e m. unfold ss_acc, ss_bind_var, clamp. cbn. q2r.
    destruct (Rlt_dec m 0) as [Hm|Hm]; split; intro H; try lra; split; lra.
  Qed.

  Lemma ss_frac_spec : forall e m,
      wp ss_frac (upd e ss_bind_var m)
         (fun e' _ => e' ss_frac_var = clamp (e "MIN_TOTAL_SS") m / e "n_tot"
                      /\ e' "n_tot" = e "n_tot" /\ e' "MIN_TOTAL_SS" = e "MIN_TOTAL_SS").
  Proof.
    intros e m. unfold ss_frac, ss_bind_var, ss_frac_var, clamp. cbn. q2r.
    destruct (Rlt_dec m 0) as [Hm|Hm]; split; intro H; try lra; repeat split; lra.
  Qed.

  Lemma ss_acc_loop : forall ms e,
      wp_foreach fun1 fun2 ss_acc ss_bind_var ms e
        (fun e1 => e1 "n_tot" = e "n_tot" + sumR (map (clamp (e "MIN_TOTAL_SS")) ms)
                   /\ e1 "MIN_TOTAL_SS" = e "MIN_TOTAL_SS").
  Proof.
    induction ms as [|m r IH]; intros e; cbn [wp_foreach map sumR].
    - split; lra.
    - eapply wp_mono; [| apply ss_acc_spec]. intros e' fl [H1 H2]. cbv beta in *.
      eapply wp_foreach_mono; [| apply IH]. intros e'' [H3 H4]. cbv beta in *.
      rewrite H3, H4, H1, H2. split; [lra | reflexivity].
  Qed.

  Lemma ss_frac_loop : forall ms e acc,
      wp_collect fun1 fun2 ss_frac ss_bind_var ss_frac_var ms e acc
        (fun _ xs => xs = (rev acc ++ map (fun m => clamp (e "MIN_TOTAL_SS") m / e "n_tot") ms)%list).
  Proof.
    induction ms as [|m r IH]; intros e acc; cbn [wp_collect map].
    - rewrite app_nil_r. reflexivity.
    - eapply wp_mono; [| apply ss_frac_spec]. intros e' fl (H1 & H2 & H3). cbv beta in *.
      eapply wp_collect_mono; [| apply IH]. intros e'' xs Hxs. cbv beta in *.
      rewrite Hxs, H1, H2, H3. cbn [rev]. rewrite <- app_assoc. reflexivity.
  Qed.

  (* calc_ss_fractions: for every list of component amounts with at least one non-zero entry the mole
     fractions it stores are non-negative and sum to one *)
  Lemma ss_fractions_simplex : forall ms e,
      e "MIN_TOTAL_SS" = Q2R c_MIN_TOTAL_SS ->
      e "n_tot" = 0 ->
      (exists m, In m ms /\ m <> 0) ->
      wp_foreach fun1 fun2 ss_acc ss_bind_var ms e (fun e1 =>
        wp_collect fun1 fun2 ss_frac ss_bind_var ss_frac_var ms e1 []
          (fun _ xs => length xs = length ms /\ Forall (fun x => 0 <= x) xs /\ sumR xs = 1)).
  Proof.
    intros ms e Hmin H0 Hex.
    assert (Hpos : 0 < e "MIN_TOTAL_SS") by (rewrite Hmin; unfold c_MIN_TOTAL_SS; q2r; lra).
    eapply wp_foreach_mono; [| apply ss_acc_loop]. intros e1 [H1 H2]. cbv beta in *.
    eapply wp_collect_mono; [| apply ss_frac_loop]. intros e2 xs Hxs. cbv beta in *.
    cbn [rev app] in Hxs. rewrite H1, H2, H0, Rplus_0_l in Hxs. subst xs.
    pose proof (sumR_clamp_pos _ ms Hpos Hex) as HN.
    set (N := sumR (map (clamp (e "MIN_TOTAL_SS")) ms)) in *.
    split; [apply map_length | split].
    - apply Forall_forall. intros x Hx. apply in_map_iff in Hx. destruct Hx as [m [<- _]].
      pose proof (clamp_nonneg (e "MIN_TOTAL_SS") m Hpos).
      unfold Rdiv. apply Rmult_le_pos; [assumption | left; apply Rinv_0_lt_compat; assumption].
    - rewrite <- (map_map (clamp (e "MIN_TOTAL_SS")) (fun x => x / N)).
      rewrite sumR_div. fold N. unfold Rdiv. apply Rinv_r. lra.
  Qed.

  (* x[i]->f of a solid-solution component row:  log K - log IAP + log10 x + log10 lambda *)
  Lemma ss_f_value : forall e toks,
      f_value fun1 fun2 ss_f_terms e toks =
      e "x.phase.lk" - log_iap toks + e "x.phase.log10_fraction_x" + e "x.phase.log10_lambda".
  Proof.
    intros e toks. unfold f_value, ss_f_terms.
    match goal with |- context [sum_tokens _ _ _ ?ts _] =>
      assert (Ht : sum_tokens fun1 fun2 e ts toks = - log_iap toks) end.
    { induction toks as [|[la c] r IH]; simpl; [lra|].
      simpl in IH. rewrite IH. unfold tok_env, upd. cbn. lra. }
    rewrite Ht. cbn. q2r. lra.
  Qed.

  (* component of a solid solution that is present: SI = log10 (x * lambda) within the tolerance *)
  Lemma ss_component_activity : forall e toks,
      row_env e ->
      e "x.ss_in" <> Q2R c_FALSE ->
      e "x.f" = f_value fun1 fun2 ss_f_terms e toks ->
      e "residual" = eden e res_ss_residual ->
      keeps "converge" res_ss e ->
      Rabs ((log_iap toks - e "x.phase.lk") - (e "x.phase.log10_fraction_x" + e "x.phase.log10_lambda")) <= tolSI.
  Proof.
    intros e toks Hrow Hin Hf Hres Hk.
    pose proof (row_env_log10 e Hrow) as HL.
    destruct Hrow as (Htol & _ & _ & _ & Hit & Hc & Hr & Herr).
    rewrite ss_f_value in Hf.
    unfold keeps, res_ss, res_ss_residual, c_convergence_tolerance, c_TRUE, c_FALSE, tolSI in *.
    cbn in Hk, Hres, Htol. q2r.
    assert (Hb : Rabs (e "residual") <= e "convergence_tolerance") by lra.
    clear Hk. rewrite Hres in Hb.
    assert (Hb' : - e "convergence_tolerance" <= e "x.f" * e "LOG_10" <= e "convergence_tolerance")
      by (revert Hb; unfold Rabs; destruct (Rcase_abs _); lra).
    destruct Hb' as [Hb1 Hb2].
    assert (- e "convergence_tolerance" <= e "x.f") by (apply scale_lower with (L := e "LOG_10"); lra).
    assert (e "x.f" <= e "convergence_tolerance") by (apply scale_upper_le with (L := e "LOG_10"); lra).
    apply Rabs_le. lra.
  Qed.

  (* ideal solid solutions: calc_ss_fractions dispatches to ss_ideal, which sets log10 lambda = 0, hence
     (with ss_component_activity) activity = mole fraction *)
  Lemma ideal_activity_is_fraction : forall e,
      e "ss_ptr.a0" = 0 -> e "ss_ptr.a1" = 0 ->
      wp ss_dispatch e (fun e1 _ => e1 "called:ss_ideal" = 1 /\ e1 "called:ss_binary" = e "called:ss_binary") /\
      wp ss_ideal_body e (fun e1 _ => e1 ss_lambda_var = 0).
  Proof.
    intros e H0 H1. unfold ss_dispatch, ss_ideal_body, ss_lambda_var. cbn. q2r.
    repeat split; intros; try lra; try tauto.
  Qed.
  (* binary non-ideal solid solutions: outside the miscibility gap ss_binary stores the mole fractions n_i / n and
     the Guggenheim (Redlich-Kister) activity coefficients
        ln lambda_1 = x2^2 (a0 - a1 (3 - 4 x2)),   ln lambda_2 = x1^2 (a0 + a1 (4 x2 - 1))     (log10 lambda = ln lambda / LOG_10) *)
  Lemma ss_binary_guggenheim : forall e,
      let nc := e "ss_ptr.ss_comps[0].moles" in
      let nb := e "ss_ptr.ss_comps[1].moles" in
      let n := e "ss_ptr.total_moles" in
      let a0 := e "ss_ptr.a0" in let a1 := e "ss_ptr.a1" in
      let xb := nb / n in let xc := nc / n in
      e "LOG_10" <> 0 -> n <> 0 ->
      ~ (e "ss_ptr.miscibility" <> 0 /\ xb > e "ss_ptr.xb1" /\ xb < e "ss_ptr.xb2") ->
      wp ss_binary_body e (fun e1 _ =>
        e1 "ss_ptr.ss_comps[0].fraction_x" = xc /\ e1 "ss_ptr.ss_comps[1].fraction_x" = xb /\
        e1 "ss_ptr.ss_comps[0].log10_lambda" * e "LOG_10" = xb * xb * (a0 - a1 * (3 - 4 * xb)) /\
        e1 "ss_ptr.ss_comps[1].log10_lambda" * e "LOG_10" = xc * xc * (a0 + a1 * (4 * xb - 1))).
  Proof.
    intros e nc nb n a0 a1 xb xc HL Hn Hgap. apply sym_sound0.
    set (t := sym ss_binary_body []). vm_compute in t. subst t.
    unfold tden. cbn [tdenS]. split; intro H.
    - exfalso. apply Hgap. cbn in H. unfold xb, nb, n. tauto.
    - unfold apply. cbn. q2r. subst xb xc nc nb n a0 a1.
      repeat split; try reflexivity; field; auto.
  Qed.

  (* in both branches (inside the gap the fractions are xb1 and 1 - xb1) the two stored fractions sum to one *)
  Lemma ss_binary_fractions_sum : forall e,
      e "ss_ptr.total_moles" = e "ss_ptr.ss_comps[0].moles" + e "ss_ptr.ss_comps[1].moles" ->
      e "ss_ptr.total_moles" <> 0 ->
      wp ss_binary_body e (fun e1 _ =>
        e1 "ss_ptr.ss_comps[0].fraction_x" + e1 "ss_ptr.ss_comps[1].fraction_x" = 1).
  Proof.
    intros e Hn Hn0. apply sym_sound0.
    set (t := sym ss_binary_body []). vm_compute in t. subst t.
    unfold tden. cbn [tdenS]. split; intro H; unfold apply; cbn; q2r.
    - lra.
    - rewrite Hn in *. field. exact Hn0.
  Qed.
  (* in BOTH branches (also inside the miscibility gap, where the stored fractions are those of the gap end-member)
     the stored activity coefficients are the Guggenheim expressions of the STORED mole fractions *)
  Lemma ss_binary_lambda_of_stored_fractions : forall e,
      e "LOG_10" <> 0 -> e "ss_ptr.total_moles" <> 0 ->
      wp ss_binary_body e (fun e1 _ =>
        let x0 := e1 "ss_ptr.ss_comps[0].fraction_x" in
        let x1 := e1 "ss_ptr.ss_comps[1].fraction_x" in
        (x0 = 1 - x1 \/ (x0 = e "ss_ptr.ss_comps[0].moles" / e "ss_ptr.total_moles"
                         /\ x1 = e "ss_ptr.ss_comps[1].moles" / e "ss_ptr.total_moles")) /\
        e1 "ss_ptr.ss_comps[0].log10_lambda" * e "LOG_10" = gugg1 (e "ss_ptr.a0") (e "ss_ptr.a1") x1 /\
        e1 "ss_ptr.ss_comps[1].log10_lambda" * e "LOG_10" = gugg2 (e "ss_ptr.a0") (e "ss_ptr.a1") x0 x1).
  Proof.
    intros e HL Hn. apply sym_sound0.
    set (t := sym ss_binary_body []). vm_compute in t. subst t.
    unfold tden, gugg1, gugg2. cbn [tdenS]. split; intro H; unfold apply; cbn; q2r.
    - repeat split; [left; lra | field; auto | field; auto].
    - repeat split; [right; split; reflexivity | field; auto | field; auto].
  Qed.
  (* ---------------------------------------------------------------- end-to-end corollaries: the state in which the
     convergence tests accept a pure-phase row is a valid state of the property (Spec.pp_validR).  The only facts
     taken from the solver are the bounds it enforces as constraints (amounts stay in [0, initial] etc.). *)

  Corollary converged_pp_row_valid : forall e target si init,
      row_env e ->
      e "x.pp_assemblage_comp_ptr.add_formula.size" = 0 ->
      e "x.dissolve_only" = Q2R c_FALSE ->
      e "residual" = eden e res_pp_residual ->
      keeps "converge" res_pp e ->
      keeps "remove_unstable_phases" chk_pp e ->
      keeps "called:error_msg" chk_pp e ->
      e "x.f" = target - si ->
      0 <= e "x.moles" ->
      pp_validR KNormal target init (e "x.moles") si.
  Proof.
    intros e target si init Hrow Hadd Hdis Hres Hk Hk2 Hk3 Hf Hm.
    destruct (ok_implies_pp_state e Hrow Hadd Hdis Hres Hk Hk2 Hk3) as [H1 H2].
    rewrite Hf in *. unfold pp_validR, tolSI in *. split; [exact Hm |]. split.
    - intro Hp. replace (si - target) with (- (target - si)) by lra. rewrite Rabs_Ropp. apply H1. lra.
    - intro Hn. split; lra.
  Qed.

  Corollary converged_dissolve_only_row_valid : forall e target si,
      row_env e ->
      e "x.pp_assemblage_comp_ptr.add_formula.size" = 0 ->
      e "x.dissolve_only" = Q2R c_TRUE ->
      e "residual" = eden e res_pp_residual ->
      keeps "converge" res_pp e ->
      e "x.f" = target - si ->
      0 <= e "x.moles" <= e "x.pp_assemblage_comp_ptr.initial_moles" ->
      pp_validR KDissolve target (e "x.pp_assemblage_comp_ptr.initial_moles") (e "x.moles") si.
  Proof.
    intros e target si Hrow Hadd Hdis Hres Hk Hf [Hm1 Hm2].
    destruct (ok_implies_pp_state_dissolve_only e Hrow Hadd Hdis Hres Hk) as [H1 H2].
    rewrite Hf in *. unfold pp_validR, tolSI in *. repeat split; lra.
  Qed.

  (* precipitate_only: the solver works on the active amount a (row as for an unrestricted phase); what is
     reported is a + initial (precipitate_only_inert) *)
  Corollary converged_precipitate_only_row_valid : forall e target si init,
      row_env e ->
      e "x.pp_assemblage_comp_ptr.add_formula.size" = 0 ->
      e "x.dissolve_only" = Q2R c_FALSE ->
      e "residual" = eden e res_pp_residual ->
      keeps "converge" res_pp e ->
      keeps "remove_unstable_phases" chk_pp e ->
      keeps "called:error_msg" chk_pp e ->
      e "x.f" = target - si ->
      0 <= e "x.moles" -> 0 <= init ->
      pp_validR KPrecip target init (e "x.moles" + init) si.
  Proof.
    intros e target si init Hrow Hadd Hdis Hres Hk Hk2 Hk3 Hf Hm Hi.
    destruct (ok_implies_pp_state e Hrow Hadd Hdis Hres Hk Hk2 Hk3) as [H1 H2].
    rewrite Hf in *. unfold pp_validR, tolSI in *.
    assert (Ha : e "x.moles" > 0 -> - (1 / 1000000) <= target - si <= 1 / 1000000).
    { intro Hp. specialize (H1 Hp). revert H1. unfold Rabs. destruct (Rcase_abs _); lra. }
    repeat split; lra.
  Qed.
  (* ---------------------------------------------------------------- reuse of the equation system (quick_setup) *)

  (* every field of the PP unknown that setup_pure_phases fills from the assemblage component (target SI, amount,
     delta, dissolve_only) is refreshed from the component by quick_setup when the model of the previous
     calculation is reused; the list is not empty and contains the target SI and the amount *)
  Lemma quick_setup_refreshes_what_setup_builds :
      reuse_refreshes_all setup_comp setup_pp quick_comp quick_pp = true /\
      mem_str "si" (comp_fields setup_comp setup_pp) = true /\
      mem_str "moles" (comp_fields setup_comp setup_pp) = true /\
      mem_str "dissolve_only" (comp_fields setup_comp setup_pp) = true.
  Proof. vm_compute. repeat split; reflexivity. Qed.

  (* semantically: after the PP row of quick_setup the unknown carries the component's target SI, amount and
     dissolve_only flag of the CURRENT assemblage *)
  Lemma quick_setup_refreshes_pp : forall e,
      wp quick_pp e (fun e1 _ =>
        e1 "x.si" = e (quick_comp ++ ".si") /\
        e1 "x.moles" = e (quick_comp ++ ".moles") /\
        (e (quick_comp ++ ".dissolve_only") <> 0 -> e1 "x.dissolve_only" = Q2R c_TRUE) /\
        (e (quick_comp ++ ".dissolve_only") = 0 -> e1 "x.dissolve_only" = Q2R c_FALSE)).
  Proof.
    intros e. unfold quick_pp, quick_comp, c_TRUE, c_FALSE. cbn. q2r.
    split; intro H; repeat split; intros; try reflexivity; try lra; try contradiction; try tauto.
  Qed.

  Lemma setup_pure_phases_fills_pp : forall e,
      wp setup_pp e (fun e1 _ =>
        e1 "x.si" = e (setup_comp ++ ".si") /\
        e1 "x.moles" = e (setup_comp ++ ".moles") /\
        e1 "x.dissolve_only" = e (setup_comp ++ ".dissolve_only")).
  Proof.
    intros e. unfold setup_pp, setup_comp. cbn. q2r.
    repeat split; intros; try reflexivity; try lra; try tauto.
  Qed.
  (* ---------------------------------------------------------------- solid-solution unknowns: the shared phase record *)

  (* every per-phase quantity that the solid-solution residual (build_ss_assemblage store_mb terms) or its Jacobian
     reads - log10_fraction_x, log10_lambda, dn, dnb, dnc - is copied from the component on EVERY path, i.e. for
     every solid solution, ideal or not, both when the model is built (setup_ss_assemblage) and when it is reused
     (quick_setup); the list read off the regenerated terms contains log10_lambda and log10_fraction_x *)
  Lemma ss_phase_record_refreshed_for_every_solid_solution :
      copies_all_phase_fields ss_f_terms setup_ss_comp setup_ss = true /\
      copies_all_phase_fields ss_f_terms quick_ss_comp quick_ss = true /\
      mem_str "log10_lambda" (ss_phase_fields ss_f_terms) = true /\
      mem_str "log10_fraction_x" (ss_phase_fields ss_f_terms) = true.
  Proof. vm_compute. repeat split; reflexivity. Qed.

  (* semantically, without any condition on a0, a1: after the copy block the phase record carries the component's
     activity coefficient and mole fraction *)
  Lemma setup_ss_copies_lambda : forall e,
      wp setup_ss e (fun e1 _ =>
        e1 "x.phase.log10_lambda" = e (setup_ss_comp ++ ".log10_lambda") /\
        e1 "x.phase.log10_fraction_x" = e (setup_ss_comp ++ ".log10_fraction_x") /\
        e1 "x.phase.dnc" = e (setup_ss_comp ++ ".dnc")).
  Proof.
    intros e. apply sym_sound0.
    set (t := sym setup_ss []). vm_compute in t. subst t.
    unfold tden, setup_ss_comp. cbn [tdenS].
    repeat split; intros; unfold apply; cbn; reflexivity.
  Qed.
  (* ---------------------------------------------------------------- model(): where the inert amounts are set and given back *)

  (* On every path through the statements of model() before its iteration loop: set_inert_moles has been called before
     model_pz() / model_sit() is entered and before control reaches the loop, and every return is preceded by
     unset_inert_moles; after the loop every return is preceded by unset_inert_moles.  (Both dispatches do occur.) *)
  Lemma inert_amounts_cover_every_solver :
      call_order model_head false = OFalls true /\
      call_order model_ret true = OReturned /\
      stmt_uses ["model_pz()"] model_head = true /\ stmt_uses ["model_sit()"] model_head = true.
  Proof. vm_compute. repeat split; reflexivity. Qed.
  (* ---------------------------------------------------------------- reactions(): every reaction step *)

  (* in EVERY pass through the loop over reaction steps (whatever reaction_step and incremental_reactions are)
     set_initial_moles - which makes the amounts at the start of THIS step the reference of dissolve_only /
     precipitate_only - is called before the step is solved (run_reactions); the body does solve a step *)
  Lemma every_step_resets_reference_amounts :
      call_before "set_initial_moles" "run_reactions" reaction_step_body false = Some true /\
      calls "run_reactions" reaction_step_body = true.
  Proof. vm_compute. split; reflexivity. Qed.
  (* ---------------------------------------------------------------- ineq(): the equation of a force_equality phase *)

  (* -force_equality means: the saturation-index equation of the phase is handed to the solver as an EQUALITY.  For a
     pure-phase unknown whose component has force_equality set, the body of the loop that copies the equality
     equations reaches the copy (memcpy) and ends normally - whatever the amount of the phase, its saturation state,
     its alternative formula, and whether it is "in" the model - unless the unknown is the mass-of-oxygen unknown
     (never the case for a pure phase). *)
  Lemma forced_phase_equation_always_copied : forall e,
      e "x.type" = Q2R c_PP ->
      e "comp_ptr.force_equality" <> 0 ->
      e "x" <> e "mass_oxygen_unknown" ->
      wp ineq_equalities e (fun e1 fl => fl = FNormal /\ e1 "called:memcpy" = 1).
  Proof.
    intros e Hty Hforce Hx. unfold ineq_equalities, c_PP in *. q2r.
    assert (Hty' : e "x.type" = 18) by lra. clear Hty.
    repeat wp_step.
    all: cbn; split; [reflexivity | lra].
  Qed.
End Tie.
