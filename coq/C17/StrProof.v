(* C17 — standard semantics of the string primitives of the BASIC model (Eval.v):
   INSTR (str_find), string comparison (str_cmp), LTRIM$/RTRIM$ (drop_spaces), PAD$ (pad_s).
   The executable definitions are the ones the correspondence check runs against PBasic.cpp;
   these lemmas say that they are the textbook functions, for every string. *)
From Coq Require Import ZArith Bool List String Ascii Lia Arith.
From IPV.C17 Require Import Num Tok Eval.
Import ListNotations.
Local Open Scope list_scope.
Local Open Scope nat_scope.

(* ------------------------------------------------------------------ is_prefix *)
Lemma is_prefix_iff : forall p s, is_prefix p s = true <-> exists t, s = p ++ t.
Proof.
  induction p as [|c p IH]; intros s; cbn [is_prefix].
  - split; [intros _; exists s; reflexivity | reflexivity].
  - destruct s as [|d s].
    + split; [discriminate | intros [t Ht]; discriminate].
    + rewrite andb_true_iff, Ascii.eqb_eq, IH. split.
      * intros [-> [t ->]]. exists t. reflexivity.
      * intros [t Ht]. cbn [app] in Ht. injection Ht as -> ->. split; [reflexivity | exists t; reflexivity].
Qed.

(* ------------------------------------------------------------------ INSTR *)
(* occurrence of p in s at 0-based offset k *)
Definition occurs_at (p s : list ascii) (k : nat) : Prop := is_prefix p (skipn k s) = true.

Lemma str_find_range : forall p s pos, (0 < pos)%Z ->
  let r := str_find p s pos in r = 0%Z \/ (pos <= r <= pos + Z.of_nat (List.length s))%Z.
Proof.
  intros p s; induction s as [|d s IH]; intros pos Hpos; cbn [str_find].
  - destruct (is_prefix p []); cbn [List.length]; lia.
  - destruct (is_prefix p (d :: s)); [cbn [List.length]; lia|].
    specialize (IH (pos + 1)%Z ltac:(lia)). cbn [List.length]. cbn zeta in IH. lia.
Qed.

(* found: the reported position is an occurrence and no earlier offset is one *)
Lemma str_find_found : forall p s pos r, (0 < pos)%Z -> str_find p s pos = r -> r <> 0%Z ->
  let k := Z.to_nat (r - pos) in
  (pos <= r)%Z /\ occurs_at p s k /\ forall j, j < k -> ~ occurs_at p s j.
Proof.
  intros p s; induction s as [|d s IH]; intros pos r Hpos Hr Hnz; cbn [str_find] in Hr.
  - destruct (is_prefix p []) eqn:E; [|congruence].
    subst r. replace (Z.to_nat (pos - pos)) with 0 by lia. cbn zeta.
    split; [lia|]. split; [exact E | intros j Hj; lia].
  - destruct (is_prefix p (d :: s)) eqn:E.
    + subst r. replace (Z.to_nat (pos - pos)) with 0 by lia. cbn zeta.
      split; [lia|]. split; [exact E | intros j Hj; lia].
    + destruct (IH (pos + 1)%Z r ltac:(lia) Hr Hnz) as [Hle [Hocc Hmin]].
      cbn zeta. replace (Z.to_nat (r - pos)) with (S (Z.to_nat (r - (pos + 1)))) by lia.
      split; [lia|]. split; [exact Hocc|].
      intros [|j] Hj; unfold occurs_at; cbn [skipn].
      * rewrite E. discriminate.
      * apply Hmin. lia.
Qed.

(* not found: no offset of s (the end included) is an occurrence *)
Lemma str_find_absent : forall p s pos, (0 < pos)%Z -> str_find p s pos = 0%Z ->
  forall j, j <= List.length s -> ~ occurs_at p s j.
Proof.
  intros p s; induction s as [|d s IH]; intros pos Hpos Hr j Hj; cbn [str_find] in Hr.
  - destruct (is_prefix p []) eqn:E; [lia|]. cbn [List.length] in Hj.
    replace j with 0 by lia. unfold occurs_at; cbn [skipn]. rewrite E. discriminate.
  - destruct (is_prefix p (d :: s)) eqn:E; [lia|].
    destruct j as [|j]; unfold occurs_at; cbn [skipn].
    + rewrite E. discriminate.
    + apply (IH (pos + 1)%Z ltac:(lia) Hr). cbn [List.length] in Hj. lia.
Qed.

(* INSTR(s, p) as the interpreter calls it: 1-based position of the first occurrence, 0 if none *)
Theorem instr_spec : forall p s,
  let r := str_find p s 1%Z in
  (r = 0%Z /\ forall j, j <= List.length s -> ~ occurs_at p s j) \/
  ((1 <= r <= 1 + Z.of_nat (List.length s))%Z /\ occurs_at p s (Z.to_nat (r - 1)) /\
   forall j, j < Z.to_nat (r - 1) -> ~ occurs_at p s j).
Proof.
  intros p s r. destruct (Z.eq_dec r 0) as [E|E].
  - left. split; [exact E|]. apply (str_find_absent p s 1%Z ltac:(lia) E).
  - right. destruct (str_find_found p s 1%Z r ltac:(lia) eq_refl E) as [H1 [H2 H3]].
    pose proof (str_find_range p s 1%Z ltac:(lia)) as Hr. cbn zeta in Hr. fold r in Hr.
    split; [lia|]. split; assumption.
Qed.

(* ------------------------------------------------------------------ comparison *)
Lemma str_cmp_refl : forall a, str_cmp a a = Eq.
Proof. induction a as [|c a IH]; cbn [str_cmp]; [reflexivity|]. rewrite Nat.compare_refl. exact IH. Qed.

Lemma str_cmp_eq : forall a b, str_cmp a b = Eq <-> a = b.
Proof.
  induction a as [|c a IH]; destruct b as [|d b]; cbn [str_cmp]; try (split; [reflexivity|reflexivity]);
    try (split; discriminate).
  destruct (Nat.compare (nat_of_ascii c) (nat_of_ascii d)) eqn:E.
  - apply Nat.compare_eq in E. rewrite IH. split.
    + intros ->. f_equal. rewrite <- (ascii_nat_embedding c), <- (ascii_nat_embedding d), E. reflexivity.
    + intros H; injection H; auto.
  - split; [discriminate|]. intros H; injection H as -> _. rewrite Nat.compare_refl in E. discriminate.
  - split; [discriminate|]. intros H; injection H as -> _. rewrite Nat.compare_refl in E. discriminate.
Qed.

Lemma str_cmp_antisym : forall a b, str_cmp b a = CompOpp (str_cmp a b).
Proof.
  induction a as [|c a IH]; destruct b as [|d b]; cbn [str_cmp]; try reflexivity.
  rewrite (Nat.compare_antisym (nat_of_ascii c) (nat_of_ascii d)).
  destruct (Nat.compare (nat_of_ascii c) (nat_of_ascii d)); cbn [CompOpp]; [apply IH | reflexivity | reflexivity].
Qed.

Lemma str_cmp_trans_lt : forall a b c, str_cmp a b = Lt -> str_cmp b c = Lt -> str_cmp a c = Lt.
Proof.
  induction a as [|x a IH]; destruct b as [|y b]; destruct c as [|z c]; cbn [str_cmp]; try discriminate; try reflexivity.
  destruct (Nat.compare_spec (nat_of_ascii x) (nat_of_ascii y)) as [E1|E1|E1];
    destruct (Nat.compare_spec (nat_of_ascii y) (nat_of_ascii z)) as [E2|E2|E2]; try discriminate; intros H1 H2.
  - rewrite E1, E2, Nat.compare_refl. eapply IH; eassumption.
  - rewrite E1. apply Nat.compare_lt_iff in E2. rewrite E2. reflexivity.
  - rewrite <- E2. apply Nat.compare_lt_iff in E1. rewrite E1. reflexivity.
  - assert (E : nat_of_ascii x < nat_of_ascii z) by lia. apply Nat.compare_lt_iff in E. rewrite E. reflexivity.
Qed.

(* ------------------------------------------------------------------ LTRIM$ / RTRIM$ *)
Lemma drop_spaces_suffix : forall l, exists sp, l = sp ++ drop_spaces l /\ forallb is_space sp = true.
Proof.
  induction l as [|c l IH]; cbn [drop_spaces].
  - exists []. split; reflexivity.
  - destruct (is_space c) eqn:E.
    + destruct IH as [sp [H1 H2]]. exists (c :: sp). cbn [app forallb]. rewrite E, H2. split; [f_equal; exact H1 | reflexivity].
    + exists []. split; reflexivity.
Qed.

Lemma drop_spaces_head : forall l, match drop_spaces l with c :: _ => is_space c = false | [] => True end.
Proof.
  induction l as [|c l IH]; cbn [drop_spaces]; [exact I|].
  destruct (is_space c) eqn:E; [exact IH | exact E].
Qed.

Lemma drop_spaces_idem : forall l, drop_spaces (drop_spaces l) = drop_spaces l.
Proof.
  intros l. pose proof (drop_spaces_head l) as H. destruct (drop_spaces l) as [|c r]; [reflexivity|].
  cbn [drop_spaces]. rewrite H. reflexivity.
Qed.

(* ------------------------------------------------------------------ PAD$ *)
Lemma string_of_list_length : forall l, String.length (string_of_list l) = List.length l.
Proof. induction l as [|c l IH]; cbn; [reflexivity | rewrite IH; reflexivity]. Qed.

Lemma string_app_length : forall a b, String.length (a ++ b)%string = String.length a + String.length b.
Proof. induction a as [|c a IH]; intros b; cbn; [reflexivity | rewrite IH; reflexivity]. Qed.

Lemma pad_s_length : forall s i, String.length (pad_s s i) = Nat.max (String.length s) (Z.to_nat i).
Proof.
  intros s i. unfold pad_s. rewrite string_app_length, string_of_list_length, repeat_length. lia.
Qed.

Lemma string_app_prefix : forall a b, substring 0 (String.length a) (a ++ b)%string = a.
Proof. induction a as [|c a IH]; intros b; cbn; [destruct b; reflexivity | rewrite IH; reflexivity]. Qed.

Lemma pad_s_prefix : forall s i, substring 0 (String.length s) (pad_s s i) = s.
Proof. intros s i. unfold pad_s. apply string_app_prefix. Qed.

(* ------------------------------------------------------------------ MID$ *)
(* MID$(s, i, j) is [substring (i-1) j s] in Eval.v: j characters, or as many as remain after the first i-1 *)
Lemma substring_length : forall s n m, String.length (substring n m s) = Nat.min m (String.length s - n).
Proof.
  induction s as [|c s IH]; intros n m; destruct n as [|n], m as [|m]; cbn [substring String.length]; try rewrite IH; cbn; lia.
Qed.

Lemma substring_all : forall s, substring 0 (String.length s) s = s.
Proof. induction s as [|c s IH]; cbn; [reflexivity | rewrite IH; reflexivity]. Qed.
