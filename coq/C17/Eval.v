(* C17 — expression evaluator of the BASIC interpreter, token level.
   Mirrors PBasic.cpp: factor / upexpr / term / sexpr / relexpr / andexpr / expr, findvar,
   realfactor / intfactor / strfactor / realexpr / intexpr / strexpr, require.

   The seven C++ functions form a precedence-climbing parser; here they are one function
   [level f L ts] indexed by the level L:
       0 expr    (OR XOR)        1 andexpr (AND)       2 relexpr (= < > <= >= <>)
       3 sexpr   (+ -)           4 term    ( times div MOD )   5 upexpr  (^)        6 factor
   Level L < 6 evaluates level L+1 and then runs the C++ `while (next token is an operator of
   this level)` loop ([loop]); the right operand of a level-L operator is evaluated at level
   [rhs_level L] (L+1, except upexpr which calls itself: ^ is right associative).
   [f] is fuel; running out of it is the distinguished result [NoFuel]. *)
From Coq Require Import ZArith Bool List String Ascii.
From IPV.C17 Require Import Num Tok.
Import ListNotations.
Open Scope string_scope.

Inductive res (A : Type) : Type :=
 | Ok (a : A)
 | Err (msg : string)      (* a BASIC error: errormsg / snerr / tmerr / badsubscr / error_msg(STOP) *)
 | Unsup (msg : string)    (* outside the modelled subset (never produced for generated programs) *)
 | NoFuel.
Arguments Ok {A}. Arguments Err {A}. Arguments Unsup {A}. Arguments NoFuel {A}.

Definition bind {A B} (r : res A) (k : A -> res B) : res B :=
  match r with Ok a => k a | Err m => Err m | Unsup m => Unsup m | NoFuel => NoFuel end.

Inductive binop := Bor | Bxor | Band | Beq | Blt | Bgt | Ble | Bge | Bne
                 | Badd | Bsub | Bmul | Bdiv | Bmod | Bpow.

(* which operator tokens each level's while-loop accepts *)
Definition op_at (L : nat) (t : tok) : option binop :=
  match L, t with
  | 0, TK Kor => Some Bor | 0, TK Kxor => Some Bxor
  | 1, TK Kand => Some Band
  | 2, TK Keq => Some Beq | 2, TK Klt => Some Blt | 2, TK Kgt => Some Bgt
  | 2, TK Kle => Some Ble | 2, TK Kge => Some Bge | 2, TK Kne => Some Bne
  | 3, TK Kplus => Some Badd | 3, TK Kminus => Some Bsub
  | 4, TK Ktimes => Some Bmul | 4, TK Kdiv => Some Bdiv | 4, TK Kmod => Some Bmod
  | 5, TK Kup => Some Bpow
  | _, _ => None
  end.

Definition rhs_level (L : nat) : nat := if Nat.eqb L 5 then 5 else S L.

(* ------------------------------------------------------------------ strings *)
Fixpoint str_cmp (a b : string) : comparison :=
  match a, b with
  | EmptyString, EmptyString => Eq
  | EmptyString, _ => Lt
  | _, EmptyString => Gt
  | String c a', String d b' =>
      match Nat.compare (nat_of_ascii c) (nat_of_ascii d) with Eq => str_cmp a' b' | o => o end
  end.

Definition str_len (s : string) : Z := Z.of_nat (String.length s).

Fixpoint is_prefix (p s : list ascii) : bool :=
  match p, s with
  | [], _ => true
  | c :: p', d :: s' => Ascii.eqb c d && is_prefix p' s'
  | _, [] => false
  end.

Fixpoint str_find (p s : list ascii) (pos : Z) : Z :=     (* strstr: 1-based position, 0 if absent *)
  if is_prefix p s then pos else
  match s with [] => 0%Z | _ :: s' => str_find p s' (pos + 1)%Z end.

Definition ltrim_s (s : string) : string := string_of_list (drop_spaces (list_of_string s)).
Definition rtrim_s (s : string) : string := string_of_list (rev (drop_spaces (rev (list_of_string s)))).
Definition trim_s (s : string) : string := ltrim_s (rtrim_s s).

Definition pad_s (s : string) (i : Z) : string :=
  let l := String.length s in
  s ++ string_of_list (repeat (ch 32) (Z.to_nat i - l)).

Definition last_is_dollar (s : string) : bool :=
  match rev (list_of_string s) with c :: _ => is_ch 36 c | [] => false end.

(* decimal digits of a non-negative integer *)
Fixpoint pos_digits (fuel : nat) (z : Z) (acc : list ascii) : list ascii :=
  match fuel with
  | O => acc
  | S f => if (z <? 10)%Z then ch (48 + Z.to_nat z) :: acc
           else pos_digits f (z / 10)%Z (ch (48 + Z.to_nat (z mod 10)) :: acc)
  end.

Definition Z_to_string (z : Z) : string :=
  let d := pos_digits (S (Z.to_nat (Z.log2 (Z.abs z + 1)))) (Z.abs z) [] in
  string_of_list (if (z <? 0)%Z then ch 45 :: d else d).

(* "%<w>.0f" of an integer *)
Definition fmt_int (w : nat) (z : Z) : string :=
  let s := Z_to_string z in
  string_of_list (repeat (ch 32) (w - String.length s)) ++ s.

Section Eval.
Variable num : Type.
Variable ops : numops num.
Variable tbl : kwtable.
Variable hp : bool.          (* high_precision of the current selected output (width of STR$) *)

Inductive val := VNum (x : num) | VStr (s : string).

Definition zero : num := n_ofZ ops 0%Z.
Definition of_bool (b : bool) : num := n_ofZ ops (if b then 1%Z else 0%Z).
Definition gtb (a b : num) : bool := n_ltb ops b a.
Definition is_zero (a : num) : bool := n_eqb ops a zero.

(* variables: scalars by name; arrays with their dimensions and a sparse row-major store;
   saved: the PUT/GET store (Phreeqc::save_values) keyed by the list of subscripts *)
Record env := mkEnv {
  e_scal : list (string * val);
  e_arr : list (string * (list Z * list (Z * val)));
  e_saved : list (list Z * num);
  e_host : list (string * num)      (* values of argument-less host functions (TIME ...) supplied by the caller, keyed by enumerator name *)
}.

Definition default_of (name : string) : val := if last_is_dollar name then VStr "" else VNum zero.

Fixpoint assoc_s {A} (l : list (string * A)) (k : string) : option A :=
  match l with [] => None | (k', v) :: r => if String.eqb k' k then Some v else assoc_s r k end.

Fixpoint assoc_z {A} (l : list (Z * A)) (k : Z) : option A :=
  match l with [] => None | (k', v) :: r => if Z.eqb k' k then Some v else assoc_z r k end.

Fixpoint zlist_eqb (a b : list Z) : bool :=
  match a, b with
  | [], [] => true
  | x :: a', y :: b' => Z.eqb x y && zlist_eqb a' b'
  | _, _ => false
  end.

Fixpoint assoc_k {A} (l : list (list Z * A)) (k : list Z) : option A :=
  match l with [] => None | (k', v) :: r => if zlist_eqb k' k then Some v else assoc_k r k end.

(* row-major index with the bounds test of findvar; None = "Bad subscript" *)
Fixpoint flat_index (dims subs : list Z) (k : Z) : option Z :=
  match dims, subs with
  | [], [] => Some k
  | d :: dims', j :: subs' =>
      if ((0 <=? j) && (j <? d))%Z then flat_index dims' subs' (k * d + j)%Z else None
  | _, _ => None
  end.

Definition need_num (v : val) (msg : string) : res num :=
  match v with VNum x => Ok x | VStr _ => Err msg end.
Definition need_str (v : val) (msg : string) : res string :=
  match v with VStr s => Ok s | VNum _ => Err msg end.

Definition lift {A} (o : option A) (msg : string) : res A :=
  match o with Some a => Ok a | None => Unsup msg end.

Definition half : res num := lift (n_lit ops 5 (-1)) "literal 0.5".

(* (long) floor(x + 0.5) *)
Definition round_half_up (x : num) : res Z :=
  bind half (fun h => lift (n_toZ ops (n_floor ops (n_add ops x h))) "long conversion out of range").

Definition to_long (x : num) : res Z := lift (n_toZ ops x) "long conversion out of range".

(* numtostr for integral values; other values are formatted by printf %e (not modelled) *)
Definition numtostr (x : num) : res string :=
  if n_eqb ops (n_ceil ops x) (n_floor ops x) then
    bind (to_long x) (fun z => Ok (fmt_int (if hp then 20 else 12) z))
  else Unsup "STR$ of a non-integral value".

(* ------------------------------------------------------------------ binary operators *)
Definition pow_op (a b : num) : res val :=
  if n_ltb ops a zero then
    bind (to_long b) (fun bz =>
      if n_eqb ops b (n_ofZ ops bz) then
        bind (lift (n_fn ops Flog (n_neg ops a)) "log") (fun l =>
        bind (lift (n_fn ops Fexp (n_mul ops b l)) "exp") (fun r =>
          Ok (VNum (if Z.odd bz then n_neg ops r else r))))
      else Err "negative number cannot be raised to a fractional power")
  else if gtb a zero then
    bind (lift (n_fn ops Flog a) "log") (fun l =>
    bind (lift (n_fn ops Fexp (n_mul ops b l)) "exp") (fun r => Ok (VNum r)))
  else if n_eqb ops a zero then Ok (VNum a)
  else Unsup "nan ^".

Definition mod_op (a b : num) : res val :=
  if negb (n_eqb ops a zero) then
    bind (lift (n_lit ops 1 (-14)) "literal 1e-14") (fun eps =>
    bind (lift (n_fmod ops (n_add ops (n_abs ops a) eps) b) "fmod") (fun r =>
      Ok (VNum (n_mul ops (n_div ops (n_abs ops a) a) r))))
  else Ok (VNum zero).

Definition rel_holds (o : binop) (c : comparison) : bool :=
  match o, c with
  | Beq, Eq | Bge, Eq | Ble, Eq => true
  | Blt, Lt | Ble, Lt | Bne, Lt => true
  | Bgt, Gt | Bge, Gt | Bne, Gt => true
  | _, _ => false
  end.

(* comparison of two numbers as the three C tests ==, <, > (all false on NaN) *)
Definition rel_num (o : binop) (a b : num) : bool :=
  (n_eqb ops a b && rel_holds o Eq) || (n_ltb ops a b && rel_holds o Lt) || (gtb a b && rel_holds o Gt).

Definition bit_op (o : binop) (a b : num) : res val :=
  bind (to_long a) (fun x => bind (to_long b) (fun y =>
    Ok (VNum (n_ofZ ops (match o with Band => Z.land x y | Bor => Z.lor x y | _ => Z.lxor x y end))))).

Definition apply_op (o : binop) (a b : val) : res val :=
  match o with
  | Bor | Bxor | Band =>
      match a, b with VNum x, VNum y => bit_op o x y | _, _ => Err "Type mismatch error" end
  | Beq | Blt | Bgt | Ble | Bge | Bne =>
      match a, b with
      | VNum x, VNum y => Ok (VNum (of_bool (rel_num o x y)))
      | VStr s, VStr t => Ok (VNum (of_bool (rel_holds o (str_cmp s t))))
      | _, _ => Err "Type mismatch error"
      end
  | Badd =>
      match a, b with
      | VNum x, VNum y => Ok (VNum (n_add ops x y))
      | VStr s, VStr t => Ok (VStr (s ++ t))
      | _, _ => Err "Type mismatch error: found char, but need a number for + or -"
      end
  | Bsub =>
      match a, b with
      | VNum x, VNum y => Ok (VNum (n_sub ops x y))
      | _, _ => Err "Type mismatch error: found char, but need a number for -"
      end
  | Bmul =>
      match a, b with VNum x, VNum y => Ok (VNum (n_mul ops x y))
      | _, _ => Err "Type mismatch error: found char, but need a number for * or /" end
  | Bdiv =>
      match a, b with
      | VNum x, VNum y => Ok (VNum (if negb (n_eqb ops y zero) then n_div ops x y else zero))  (* "Zero divide ... Value set to zero" *)
      | _, _ => Err "Type mismatch error: found char, but need a number for * or /" end
  | Bmod =>
      match a, b with VNum x, VNum y => mod_op x y
      | _, _ => Err "Type mismatch error: found char, but need a number for * or /" end
  | Bpow =>
      match a, b with VNum x, VNum y => pow_op x y
      | _, _ => Err "Type mismatch error: not a number around ^" end
  end.

(* ------------------------------------------------------------------ unary numeric functions (realfactor based) *)
Definition fn1 (k : kw) (x : num) : option (res val) :=
  let r1 f := Some (bind (lift (n_fn ops f x) "libm") (fun y => Ok (VNum y))) in
  match k with
  | Ksqr => Some (Ok (VNum (n_mul ops x x)))
  | Ksqrt => Some (Ok (VNum (n_sqrt ops x)))
  | Kceil => Some (Ok (VNum (n_ceil ops x)))
  | Kfloor => Some (Ok (VNum (n_floor ops x)))
  | Kabs => Some (Ok (VNum (n_abs ops x)))
  | Ksgn => Some (Ok (VNum (n_sub ops (of_bool (gtb x zero)) (of_bool (n_ltb ops x zero)))))
  | Klog10 => r1 Flog10 | Ksin => r1 Fsin | Kcos => r1 Fcos | Karctan => r1 Fatan
  | Klog => r1 Flog | Kexp => r1 Fexp
  | Ktan => Some (bind (lift (n_fn ops Fsin x) "libm") (fun s =>
                  bind (lift (n_fn ops Fcos x) "libm") (fun c => Ok (VNum (n_div ops s c)))))
  | Kstr_ => Some (bind (numtostr x) (fun s => Ok (VStr s)))
  | _ => None
  end.

Definition require (k : kw) (ts : list tok) : res (list tok) :=
  match ts with
  | t :: r => if tok_is k t then Ok r else Err "Syntax_error: missing token"
  | [] => Err "Syntax_error: missing token"
  end.

Definition vres := res (val * list tok).

(* the factor() switch; [ev L] evaluates at level L, [tl] parses `{, intexpr} )` *)
Definition factor_body (e : env) (ev : nat -> list tok -> vres) (tl : list tok -> res (list Z * list tok))
           (ts : list tok) : vres :=
  let realfactor ts' := bind (ev 6 ts') (fun p => bind (need_num (fst p) "Type mismatch error: found characters, not a number")
                                                  (fun x => Ok (x, snd p))) in
  let strfactor ts' := bind (ev 6 ts') (fun p => bind (need_str (fst p) "Type mismatch error: Expected quoted string or character variable.")
                                                 (fun s => Ok (s, snd p))) in
  let intexpr ts' := bind (ev 0 ts') (fun p => bind (need_num (fst p) "Type mismatch error: found characters, not a number")
                                               (fun x => bind (round_half_up x) (fun z => Ok (z, snd p)))) in
  let strexpr ts' := bind (ev 0 ts') (fun p => bind (need_str (fst p) "Type mismatch error: Expected quoted string or character variable.")
                                               (fun s => Ok (s, snd p))) in
  match ts with
  | [] => Err "Syntax_error: missing variable or command"
  | t :: r =>
    match t with
    | TNum m ex => bind (lift (n_lit ops m ex) "numeric literal outside the strtod fast path") (fun x => Ok (VNum x, r))
    | TNumBad => Unsup "numeric literal form"
    | TStr s => Ok (VStr s, r)
    | TVar name =>
        match r with
        | TK Klp :: r1 =>
            match assoc_s (e_arr e) name with
            | None => Unsup "array used before DIM (automatic dimensioning is not modelled)"
            | Some (dims, cells) =>
                bind (intexpr r1) (fun p1 =>
                bind (tl (snd p1)) (fun p2 =>
                  match flat_index dims (fst p1 :: fst p2) 0%Z with
                  | Some k => Ok (match assoc_z cells k with Some v => v | None => default_of name end, snd p2)
                  | None => Err "Bad subscript"
                  end))
            end
        | _ =>
            match assoc_s (e_arr e) name with
            | Some _ => Err "Bad subscript"
            | None => Ok (match assoc_s (e_scal e) name with Some v => v | None => default_of name end, r)
            end
        end
    | TSnerr => Err "Syntax_error"
    | TK Klp => bind (ev 0 r) (fun p => bind (require Krp (snd p)) (fun r' => Ok (fst p, r')))
    | TK Kminus => bind (realfactor r) (fun p => Ok (VNum (n_neg ops (fst p)), snd p))
    | TK Kplus => bind (realfactor r) (fun p => Ok (VNum (fst p), snd p))
    | TK Knot => bind (realfactor r) (fun p => bind (round_half_up (fst p)) (fun z => Ok (VNum (n_ofZ ops (Z.lnot z)), snd p)))
    | TK Kval =>
        bind (strfactor r) (fun p =>
          match parse_string tbl (fst p) with
          | LineErr m => Err m
          | LineOk _ [] => Ok (VNum zero, snd p)
          | LineOk _ ts' => bind (ev 0 ts') (fun q => Ok (fst q, snd p))
          end)
    | TK Kchr_ => bind (realfactor r) (fun p => bind (round_half_up (fst p)) (fun z =>
                    if ((1 <=? z) && (z <? 128))%Z then Ok (VStr (String (ch (Z.to_nat z)) EmptyString), snd p)
                    else Unsup "CHR$ outside 1..127"))
    | TK Kasc => bind (strfactor r) (fun p =>
                    Ok (VNum (n_ofZ ops (match fst p with EmptyString => 0%Z | String c _ => Z.of_nat (nat_of_ascii c) end)), snd p))
    | TK Klen => bind (strfactor r) (fun p => Ok (VNum (n_ofZ ops (str_len (fst p))), snd p))
    | TK Kmid_ =>
        bind (require Klp r) (fun r1 => bind (strexpr r1) (fun p1 =>
        bind (require Kcomma (snd p1)) (fun r2 => bind (intexpr r2) (fun p2 =>
          let i := Z.max 1 (fst p2) in
          let fin (j : Z) (r3 : list tok) :=
            bind (require Krp r3) (fun r4 =>
              if (str_len (fst p1) <? i - 1)%Z then Ok (VStr "", r4)      (* start beyond the end: the empty string *)
              else Ok (VStr (substring (Z.to_nat (i - 1)) (if (j <? 0)%Z then String.length (fst p1) else Z.to_nat j) (fst p1)), r4)) in
          match snd p2 with
          | TK Kcomma :: r3 => bind (intexpr r3) (fun p3 => fin (fst p3) (snd p3))
          | r3 => fin (str_len (fst p1)) r3
          end))))
    | TK Kinstr =>
        bind (require Klp r) (fun r1 => bind (strfactor r1) (fun p1 =>
        bind (require Kcomma (snd p1)) (fun r2 => bind (strfactor r2) (fun p2 =>
        bind (require Krp (snd p2)) (fun r3 =>
          Ok (VNum (n_ofZ ops (str_find (list_of_string (fst p2)) (list_of_string (fst p1)) 1%Z)), r3))))))
    | TK Kltrim => bind (require Klp r) (fun r1 => bind (strfactor r1) (fun p1 => bind (require Krp (snd p1)) (fun r2 => Ok (VStr (ltrim_s (fst p1)), r2))))
    | TK Krtrim => bind (require Klp r) (fun r1 => bind (strfactor r1) (fun p1 => bind (require Krp (snd p1)) (fun r2 => Ok (VStr (rtrim_s (fst p1)), r2))))
    | TK Ktrim => bind (require Klp r) (fun r1 => bind (strfactor r1) (fun p1 => bind (require Krp (snd p1)) (fun r2 => Ok (VStr (trim_s (fst p1)), r2))))
    | TK Kpad =>
        bind (require Klp r) (fun r1 => bind (strexpr r1) (fun p1 =>
        bind (require Kcomma (snd p1)) (fun r2 => bind (intexpr r2) (fun p2 =>
        bind (require Krp (snd p2)) (fun r3 => Ok (VStr (pad_s (fst p1) (fst p2)), r3))))))
    | TK Kget | TK Kexists =>
        bind (require Klp r) (fun r1 =>
          let fin (key : list Z) (r' : list tok) :=
            match t with
            | TK Kget => Ok (VNum (match assoc_k (e_saved e) key with Some x => x | None => zero end), r')
            | _ => Ok (VNum (of_bool (match assoc_k (e_saved e) key with Some _ => true | None => false end)), r')
            end in
          match r1 with
          | TK Krp :: r2 => fin [] r2
          | _ => bind (intexpr r1) (fun p1 => bind (tl (snd p1)) (fun p2 => fin (fst p1 :: fst p2) (snd p2)))
          end)
    | TK k =>
        match fn1 k zero with
        | Some _ => bind (realfactor r) (fun p => match fn1 k (fst p) with Some rv => bind rv (fun v => Ok (v, snd p)) | None => Err "unreachable" end)
        | None =>
            match k with
            | Kother nm => match assoc_s (e_host e) nm with
                           | Some x => Ok (VNum x, r)
                           | None => Unsup "PHREEQC function outside the model"
                           end
            | _ => Err "Syntax_error: missing "" or ("
            end
        end
    end
  end.

Fixpoint level (f : nat) (e : env) (L : nat) (ts : list tok) {struct f} : vres :=
  match f with
  | O => NoFuel
  | S f' =>
      if Nat.leb 6 L then factor_body e (level f' e) (args_tail f' e) ts
      else bind (level f' e (S L) ts) (fun p => loop f' e L (fst p) (snd p))
  end
with loop (f : nat) (e : env) (L : nat) (v : val) (ts : list tok) {struct f} : vres :=
  match f with
  | O => NoFuel
  | S f' =>
      match ts with
      | t :: r =>
          match op_at L t with
          | Some o =>
              bind (level f' e (rhs_level L) r) (fun p =>
              bind (apply_op o v (fst p)) (fun v' => loop f' e L v' (snd p)))
          | None => Ok (v, ts)
          end
      | [] => Ok (v, ts)
      end
  end
with args_tail (f : nat) (e : env) (ts : list tok) {struct f} : res (list Z * list tok) :=
  match f with
  | O => NoFuel
  | S f' =>
      match ts with
      | TK Kcomma :: r =>
          bind (level f' e 0 r) (fun p =>
          bind (need_num (fst p) "Type mismatch error: found characters, not a number") (fun x =>
          bind (round_half_up x) (fun z =>
          bind (args_tail f' e (snd p)) (fun q => Ok (z :: fst q, snd q)))))
      | TK Krp :: r => Ok ([], r)
      | _ => Err "Syntax_error: missing ) or ]"
      end
  end.

Definition expr (f : nat) (e : env) (ts : list tok) : vres := level f e 0 ts.

Definition realexpr (f : nat) (e : env) (ts : list tok) : res (num * list tok) :=
  bind (expr f e ts) (fun p => bind (need_num (fst p) "Type mismatch error: found characters, not a number") (fun x => Ok (x, snd p))).

Definition strexpr (f : nat) (e : env) (ts : list tok) : res (string * list tok) :=
  bind (expr f e ts) (fun p => bind (need_str (fst p) "Type mismatch error: Expected quoted string or character variable.") (fun s => Ok (s, snd p))).

Definition intexpr (f : nat) (e : env) (ts : list tok) : res (Z * list tok) :=
  bind (realexpr f e ts) (fun p => bind (round_half_up (fst p)) (fun z => Ok (z, snd p))).

End Eval.

Arguments VNum {num}. Arguments VStr {num}.
