(* C17 — specification side for expressions: an expression AST, its reference evaluation
   (structural recursion: the meaning of an operator applied to the meanings of its operands)
   and the printer that turns an AST into the token stream a BASIC programmer would write,
   with the minimal parentheses for the documented precedences:

       OR XOR  <  AND  <  = < > <= >= <>  <  + -  <  * / MOD  <  ^  <  unary - NOT f(x) atoms

   all binary operators left associative except ^ (right associative); the operand of a unary
   operator or function is a factor (so -a^b is (-a)^b, the recorded reading of this interpreter). *)
From Coq Require Import ZArith Bool List String Ascii.
From IPV.C17 Require Import Num Tok Eval.
Import ListNotations.
Open Scope string_scope.

Inductive ex :=
 | ENum (m e : Z)
 | EStr (s : string)                (* string literal *)
 | EVar (x : string)                (* numeric or string ($) scalar variable *)
 | ENeg (a : ex)
 | ENot (a : ex)
 | EFn (k : kw) (a : ex)            (* SQR SQRT CEIL FLOOR ABS SGN LOG10 SIN COS TAN ARCTAN LOG EXP STR$ *)
 | EBin (o : binop) (a b : ex).

Definition lvl (o : binop) : nat :=
  match o with
  | Bor | Bxor => 0
  | Band => 1
  | Beq | Blt | Bgt | Ble | Bge | Bne => 2
  | Badd | Bsub => 3
  | Bmul | Bdiv | Bmod => 4
  | Bpow => 5
  end.

Definition optok (o : binop) : tok :=
  TK (match o with
      | Bor => Kor | Bxor => Kxor | Band => Kand
      | Beq => Keq | Blt => Klt | Bgt => Kgt | Ble => Kle | Bge => Kge | Bne => Kne
      | Badd => Kplus | Bsub => Kminus | Bmul => Ktimes | Bdiv => Kdiv | Bmod => Kmod | Bpow => Kup
      end).

Definition prec (a : ex) : nat := match a with EBin o _ _ => lvl o | _ => 6 end.

(* level at which the left operand is printed: ^ takes a factor on its left *)
Definition lhs_level (o : binop) : nat := match o with Bpow => 6 | _ => lvl o end.

Fixpoint pr (L : nat) (a : ex) : list tok :=
  let body :=
    match a with
    | ENum m e => [TNum m e]
    | EStr s => [TStr s]
    | EVar x => [TVar x]
    | ENeg b => TK Kminus :: pr 6 b
    | ENot b => TK Knot :: pr 6 b
    | EFn k b => TK k :: pr 6 b
    | EBin o x y => (pr (lhs_level o) x ++ optok o :: pr (rhs_level (lvl o)) y)%list
    end in
  if Nat.ltb (prec a) L then (TK Klp :: body ++ [TK Krp])%list else body.

Section AstEval.
Variable num : Type.
Variable ops : numops num.
Variable hp : bool.
Variable e : env num.

Notation val := (val num).

Definition is_fn (k : kw) : bool :=
  match k with
  | Ksqr | Ksqrt | Kceil | Kfloor | Kabs | Ksgn | Klog10 | Ksin | Kcos | Ktan | Karctan | Klog | Kexp | Kstr_ => true
  | _ => false
  end.

Definition var_value (x : string) : res val :=
  match assoc_s (e_arr num e) x with
  | Some _ => Err "Bad subscript"
  | None => Ok (match assoc_s (e_scal num e) x with Some v => v | None => default_of num ops x end)
  end.

Fixpoint eval_ast (a : ex) : res val :=
  match a with
  | ENum m ex => bind (lift (n_lit ops m ex) "numeric literal outside the strtod fast path") (fun x => Ok (VNum x))
  | EStr s => Ok (VStr s)
  | EVar x => var_value x
  | ENeg b => bind (eval_ast b) (fun v => bind (need_num num v "Type mismatch error: found characters, not a number")
                                   (fun x => Ok (VNum (n_neg ops x))))
  | ENot b => bind (eval_ast b) (fun v => bind (need_num num v "Type mismatch error: found characters, not a number")
                                   (fun x => bind (round_half_up num ops x) (fun z => Ok (VNum (n_ofZ ops (Z.lnot z))))))
  | EFn k b => bind (eval_ast b) (fun v => bind (need_num num v "Type mismatch error: found characters, not a number")
                                    (fun x => if is_fn k then match fn1 num ops hp k x with Some r => r | None => Err "not a function" end
                                              else Err "not a function"))
  | EBin o x y => bind (eval_ast x) (fun vx => bind (eval_ast y) (fun vy => apply_op num ops o vx vy))
  end.

End AstEval.
