(* C17 — tokens and the tokenizer of the BASIC interpreter.
   Models PBasic.cpp: parseinput (line number, trimming) and parse (token scanner, quote and
   parenthesis balance errors).  The keyword table is a parameter: the check instantiates it
   with the table regenerated from PBasic::command_tokens (coq/Gen/Gen_C17_tokens.v). *)
From Coq Require Import ZArith Bool List String Ascii.
Import ListNotations.
Open Scope string_scope.

Inductive kw :=
 | Kplus | Kminus | Ktimes | Kdiv | Kup | Klp | Krp | Kcomma | Ksemi | Kcolon
 | Keq | Klt | Kgt | Kle | Kge | Kne | Kand | Kor | Kxor | Knot | Kmod
 | Ksqr | Ksqrt | Ksin | Kcos | Ktan | Karctan | Klog | Klog10 | Kexp | Kabs | Ksgn | Kfloor | Kceil
 | Kstr_ | Kval | Kchr_ | Kasc | Kmid_ | Klen | Kinstr | Kltrim | Krtrim | Ktrim | Kpad
 | Klet | Kprint | Kpunch | Ksave | Kput | Kget | Kexists
 | Kif | Kthen | Kelse | Kend | Kstop | Kfor | Kto | Kstep | Knext | Kwhile | Kwend
 | Kgoto | Kgosub | Kreturn | Kread | Kdata | Krestore | Kon | Kdim | Krem | Kerase
 | Kother (enum_name : string).   (* any other BASIC_TOKEN (PHREEQC functions...) : outside the model *)

Definition kw_eqb (a b : kw) : bool :=
  match a, b with
  | Kplus, Kplus | Kminus, Kminus | Ktimes, Ktimes | Kdiv, Kdiv | Kup, Kup | Klp, Klp | Krp, Krp
  | Kcomma, Kcomma | Ksemi, Ksemi | Kcolon, Kcolon | Keq, Keq | Klt, Klt | Kgt, Kgt | Kle, Kle
  | Kge, Kge | Kne, Kne | Kand, Kand | Kor, Kor | Kxor, Kxor | Knot, Knot | Kmod, Kmod
  | Ksqr, Ksqr | Ksqrt, Ksqrt | Ksin, Ksin | Kcos, Kcos | Ktan, Ktan | Karctan, Karctan | Klog, Klog
  | Klog10, Klog10 | Kexp, Kexp | Kabs, Kabs | Ksgn, Ksgn | Kfloor, Kfloor | Kceil, Kceil
  | Kstr_, Kstr_ | Kval, Kval | Kchr_, Kchr_ | Kasc, Kasc | Kmid_, Kmid_ | Klen, Klen | Kinstr, Kinstr
  | Kltrim, Kltrim | Krtrim, Krtrim | Ktrim, Ktrim | Kpad, Kpad
  | Klet, Klet | Kprint, Kprint | Kpunch, Kpunch | Ksave, Ksave | Kput, Kput | Kget, Kget | Kexists, Kexists
  | Kif, Kif | Kthen, Kthen | Kelse, Kelse | Kend, Kend | Kstop, Kstop | Kfor, Kfor | Kto, Kto
  | Kstep, Kstep | Knext, Knext | Kwhile, Kwhile | Kwend, Kwend | Kgoto, Kgoto | Kgosub, Kgosub
  | Kreturn, Kreturn | Kread, Kread | Kdata, Kdata | Krestore, Krestore | Kon, Kon | Kdim, Kdim
  | Krem, Krem | Kerase, Kerase => true
  | Kother a, Kother b => String.eqb a b
  | _, _ => false
  end.

(* BASIC_TOKEN enumerator name -> model keyword *)
Definition kw_of_enum (s : string) : kw :=
  if s =? "tokplus" then Kplus else if s =? "tokminus" then Kminus else if s =? "toktimes" then Ktimes else
  if s =? "tokdiv" then Kdiv else if s =? "tokup" then Kup else if s =? "toklp" then Klp else
  if s =? "tokrp" then Krp else if s =? "tokcomma" then Kcomma else if s =? "toksemi" then Ksemi else
  if s =? "tokcolon" then Kcolon else if s =? "tokeq" then Keq else if s =? "toklt" then Klt else
  if s =? "tokgt" then Kgt else if s =? "tokle" then Kle else if s =? "tokge" then Kge else
  if s =? "tokne" then Kne else if s =? "tokand" then Kand else if s =? "tokor" then Kor else
  if s =? "tokxor" then Kxor else if s =? "toknot" then Knot else if s =? "tokmod" then Kmod else
  if s =? "toksqr" then Ksqr else if s =? "toksqrt" then Ksqrt else if s =? "toksin" then Ksin else
  if s =? "tokcos" then Kcos else if s =? "toktan" then Ktan else if s =? "tokarctan" then Karctan else
  if s =? "toklog" then Klog else if s =? "toklog10" then Klog10 else if s =? "tokexp" then Kexp else
  if s =? "tokabs" then Kabs else if s =? "toksgn" then Ksgn else if s =? "tokfloor" then Kfloor else
  if s =? "tokceil" then Kceil else if s =? "tokstr_" then Kstr_ else if s =? "tokval" then Kval else
  if s =? "tokchr_" then Kchr_ else if s =? "tokasc" then Kasc else if s =? "tokmid_" then Kmid_ else
  if s =? "toklen" then Klen else if s =? "tokinstr" then Kinstr else if s =? "tokltrim" then Kltrim else
  if s =? "tokrtrim" then Krtrim else if s =? "toktrim" then Ktrim else if s =? "tokpad" then Kpad else
  if s =? "tokpad_" then Kpad else
  if s =? "toklet" then Klet else if s =? "tokprint" then Kprint else if s =? "tokpunch" then Kpunch else
  if s =? "toksave" then Ksave else if s =? "tokput" then Kput else if s =? "tokget" then Kget else
  if s =? "tokexists" then Kexists else if s =? "tokif" then Kif else if s =? "tokthen" then Kthen else
  if s =? "tokelse" then Kelse else if s =? "tokend" then Kend else if s =? "tokstop" then Kstop else
  if s =? "tokfor" then Kfor else if s =? "tokto" then Kto else if s =? "tokstep" then Kstep else
  if s =? "toknext" then Knext else if s =? "tokwhile" then Kwhile else if s =? "tokwend" then Kwend else
  if s =? "tokgoto" then Kgoto else if s =? "tokgosub" then Kgosub else if s =? "tokreturn" then Kreturn else
  if s =? "tokread" then Kread else if s =? "tokdata" then Kdata else if s =? "tokrestore" then Krestore else
  if s =? "tokon" then Kon else if s =? "tokdim" then Kdim else if s =? "tokrem" then Krem else
  if s =? "tokerase" then Kerase else Kother s.

Inductive tok :=
 | TNum (m e : Z)          (* decimal literal m * 10^e *)
 | TNumBad                 (* a numeric literal outside the modelled strtod subset *)
 | TStr (s : string)
 | TVar (name : string)
 | TK (k : kw)
 | TSnerr.                 (* toksnerr *)

Definition tok_is (k : kw) (t : tok) : bool :=
  match t with TK k' => kw_eqb k k' | _ => false end.

(* ------------------------------------------------------------------ characters *)
Definition nat_of (c : ascii) : nat := nat_of_ascii c.
Definition is_digit (c : ascii) : bool := (48 <=? nat_of c)%nat && (nat_of c <=? 57)%nat.
Definition is_upper (c : ascii) : bool := (65 <=? nat_of c)%nat && (nat_of c <=? 90)%nat.
Definition is_lower (c : ascii) : bool := (97 <=? nat_of c)%nat && (nat_of c <=? 122)%nat.
Definition is_alpha (c : ascii) : bool := is_upper c || is_lower c.
Definition is_alnum (c : ascii) : bool := is_alpha c || is_digit c.
Definition is_space (c : ascii) : bool :=
  let n := nat_of c in (n =? 32)%nat || ((9 <=? n)%nat && (n <=? 13)%nat).
Definition to_lower (c : ascii) : ascii := if is_upper c then ascii_of_nat (nat_of c + 32) else c.
Definition ch (n : nat) : ascii := ascii_of_nat n.
Definition is_ch (n : nat) (c : ascii) : bool := (nat_of c =? n)%nat.
Definition digit_val (c : ascii) : Z := Z.of_nat (nat_of c - 48).

Fixpoint string_of_list (l : list ascii) : string :=
  match l with [] => EmptyString | c :: r => String c (string_of_list r) end.
Fixpoint list_of_string (s : string) : list ascii :=
  match s with EmptyString => [] | String c r => c :: list_of_string r end.

(* ------------------------------------------------------------------ keyword table *)
Definition kwtable := list (string * string).   (* lower-case spelling, BASIC_TOKEN enumerator name *)

Fixpoint kw_lookup (tbl : kwtable) (w : string) : option string :=
  match tbl with
  | [] => None
  | (k, v) :: r => if String.eqb k w then Some v else kw_lookup r w
  end.

(* ------------------------------------------------------------------ scanner *)
Inductive scanres :=
 | ScanOk (ts : list tok)
 | ScanErr (msg : string).

Fixpoint take_digits (l : list ascii) (acc : Z) (n : Z) : Z * Z * list ascii :=
  match l with
  | c :: r => if is_digit c then take_digits r (acc * 10 + digit_val c)%Z (n + 1)%Z else (acc, n, l)
  | [] => (acc, n, l)
  end.

(* strtod on a decimal literal starting at l (first char is a digit or '.').
   Returns None when no conversion is possible (toksnerr). *)
Definition scan_number (l : list ascii) : option (tok * list ascii) :=
  let '(ip, nip, r1) := take_digits l 0%Z 0%Z in
  let '(m, nfr, r2, ndig) :=
    match r1 with
    | c :: r => if is_ch 46 c then let '(m', nf, r') := take_digits r ip 0%Z in (m', nf, r', (nip + nf)%Z)
                else (ip, 0%Z, r1, nip)
    | [] => (ip, 0%Z, r1, nip)
    end in
  if (ndig =? 0)%Z then None else
  (* hexadecimal / special forms are outside the model *)
  let hexish := match l with c0 :: c1 :: _ => is_ch 48 c0 && (is_ch 120 c1 || is_ch 88 c1) | _ => false end in
  if hexish then Some (TNumBad, r2) else
  let '(ex, r3) :=
    match r2 with
    | c :: r =>
        if is_ch 101 c || is_ch 69 c then
          match r with
          | s :: d :: r' =>
              if (is_ch 43 s || is_ch 45 s) && is_digit d then
                let '(x, _, r'') := take_digits (d :: r') 0%Z 0%Z in ((if is_ch 45 s then (- x)%Z else x), r'')
              else if is_digit s then let '(x, _, r'') := take_digits r 0%Z 0%Z in (x, r'')
              else (0%Z, r2)
          | [d] => if is_digit d then (digit_val d, []) else (0%Z, r2)
          | [] => (0%Z, r2)
          end
        else (0%Z, r2)
    | [] => (0%Z, r2)
    end in
  Some (TNum m (ex - nfr)%Z, r3).

Fixpoint take_until (q : ascii) (l : list ascii) (acc : list ascii) : list ascii * option (list ascii) :=
  match l with
  | [] => (rev acc, None)
  | c :: r => if Ascii.eqb c q then (rev acc, Some r) else take_until q r (c :: acc)
  end.

Fixpoint take_word (l : list ascii) (acc : list ascii) : list ascii * list ascii :=
  match l with
  | c :: r => if is_alnum c || is_ch 36 c || is_ch 95 c then take_word r (to_lower c :: acc) else (rev acc, l)
  | [] => (rev acc, [])
  end.

Definition toklength := 20%nat.

(* parse(): fuel = number of characters; lp = parenthesis balance, q = unterminated quotes *)
Fixpoint scan (tbl : kwtable) (fuel : nat) (l : list ascii) (acc : list tok) (lp : Z) (q : bool)
  : list tok * Z * bool :=
  match fuel with
  | O => (rev acc, lp, q)
  | S fuel' =>
    match l with
    | [] => (rev acc, lp, q)
    | c :: r =>
      let one k := scan tbl fuel' r (TK k :: acc) lp q in
      if is_ch 32 c || is_ch 9 c then scan tbl fuel' r acc lp q
      else if is_ch 34 c || is_ch 39 c then
        match take_until c r [] with
        | (s, Some r') => scan tbl fuel' r' (TStr (string_of_list s) :: acc) lp q
        | (s, None) => (rev (TStr (string_of_list s) :: acc), lp, true)
        end
      else if is_ch 43 c then one Kplus
      else if is_ch 45 c then one Kminus
      else if is_ch 42 c then one Ktimes
      else if is_ch 47 c then one Kdiv
      else if is_ch 94 c then one Kup
      else if is_ch 40 c || is_ch 91 c then scan tbl fuel' r (TK Klp :: acc) (lp + 1)%Z q
      else if is_ch 41 c || is_ch 93 c then scan tbl fuel' r (TK Krp :: acc) (lp - 1)%Z q
      else if is_ch 44 c then one Kcomma
      else if is_ch 59 c then one Ksemi
      else if is_ch 58 c then one Kcolon
      else if is_ch 63 c then one Kprint
      else if is_ch 61 c then one Keq
      else if is_ch 60 c then
        match r with
        | d :: r' => if is_ch 61 d then scan tbl fuel' r' (TK Kle :: acc) lp q
                     else if is_ch 62 d then scan tbl fuel' r' (TK Kne :: acc) lp q
                     else one Klt
        | [] => one Klt
        end
      else if is_ch 62 c then
        match r with
        | d :: r' => if is_ch 61 d then scan tbl fuel' r' (TK Kge :: acc) lp q else one Kgt
        | [] => one Kgt
        end
      else if is_alpha c then
        let '(w, r') := take_word l [] in
        let w' := string_of_list (firstn toklength w) in
        match kw_lookup tbl w' with
        | Some en =>
            let k := kw_of_enum en in
            if kw_eqb k Krem then (rev (TK Krem :: acc), lp, q)      (* rest of the line is the remark *)
            else scan tbl fuel' r' (TK k :: acc) lp q
        | None => scan tbl fuel' r' (TVar w' :: acc) lp q
        end
      else if is_digit c || is_ch 46 c then
        match scan_number l with
        | Some (t, r') => scan tbl fuel' r' (t :: acc) lp q
        | None => scan tbl fuel' r (TSnerr :: acc) lp q
        end
      else scan tbl fuel' r (TSnerr :: acc) lp q
    end
  end.

(* parseinput: tabs and CR to blanks, trim, leading digits = line number *)
Fixpoint drop_spaces (l : list ascii) : list ascii :=
  match l with c :: r => if is_space c then drop_spaces r else l | [] => [] end.

Definition trim_list (l : list ascii) : list ascii := rev (drop_spaces (rev (drop_spaces l))).

Fixpoint take_lineno (l : list ascii) (acc : Z) : Z * list ascii :=
  match l with
  | c :: r => if is_digit c then take_lineno r (acc * 10 + digit_val c)%Z else (acc, l)
  | [] => (acc, [])
  end.

Inductive lineres :=
 | LineOk (num : Z) (ts : list tok)
 | LineErr (msg : string).

Definition parse_line (tbl : kwtable) (s : string) : lineres :=
  let l0 := map (fun c => if is_ch 9 c || is_ch 13 c then ch 32 else c) (list_of_string s) in
  let l1 := trim_list l0 in
  let '(n, l2) := take_lineno l1 0%Z in
  let '(ts, lp, q) := scan tbl (S (List.length l2)) l2 [] 0%Z false in
  if q then LineErr "missing quote in BASIC line"
  else if (0 <? lp)%Z then LineErr "missing ) or ] in BASIC line"
  else if (lp <? 0)%Z then LineErr "missing ( or [ in BASIC line"
  else LineOk n ts.

(* tokens of a string handed to VAL(): parse() without the line-number step; balance errors are
   fatal there as well *)
Definition parse_string (tbl : kwtable) (s : string) : lineres :=
  let l := list_of_string s in
  let '(ts, lp, q) := scan tbl (S (List.length l)) l [] 0%Z false in
  if q then LineErr "missing quote in BASIC line"
  else if (0 <? lp)%Z then LineErr "missing ) or ] in BASIC line"
  else if (lp <? 0)%Z then LineErr "missing ( or [ in BASIC line"
  else LineOk 0%Z ts.
