(* C17 — statement executors and the run loop of the BASIC interpreter.
   Mirrors PBasic.cpp: exec (dispatch, colon/else handling, "Extra information on line", line
   advance), cmdlet cmdprint cmdpunch cmdsave cmdput cmdgoto cmdif cmdelse cmdend cmdfor cmdnext
   cmdwhile cmdwend cmdgosub cmdreturn cmdread cmddata cmdrestore cmdon cmddim, skiploop,
   skiptoeos, iseos, mustfindline; basic_compile's line store (parseinput: sorted insertion,
   replacement of a line with the same number) and basic_run's "run" (cmdrun). *)
From Coq Require Import ZArith Bool List String Ascii.
From IPV.C17 Require Import Num Tok Eval.
Import ListNotations.
Open Scope string_scope.

Section Exec.
Variable num : Type.
Variable ops : numops num.
Variable tbl : kwtable.
Variable hp : bool.

Notation val := (val num).
Notation env := (env num).

Inductive looprec :=
 | LFor (vname : string) (max step : num) (homeline : option nat) (hometok : list tok)
 | LWhile (homeline : option nat) (hometok : list tok)
 | LGosub (homeline : option nat) (hometok : list tok).

Inductive out := OPunch (v : val) | OPrint (v : val) | OPrintNl.

Definition program := list (Z * list tok).    (* the line store, ascending line numbers *)

Record state := mkState {
  s_env : env;
  s_loops : list looprec;
  s_line : option nat;          (* stmtline: index into the program, None = immediate / finished *)
  s_t : list tok;               (* LINK->t *)
  s_goto : bool;
  s_else : bool;
  s_dataline : option nat;
  s_datatok : list tok;
  s_out : list out;             (* most recent first *)
  s_save : option num           (* rate_moles set by SAVE *)
}.

Definition with_t (s : state) (t : list tok) : state :=
  mkState (s_env s) (s_loops s) (s_line s) t (s_goto s) (s_else s) (s_dataline s) (s_datatok s) (s_out s) (s_save s).
Definition with_env (s : state) (e : env) : state :=
  mkState e (s_loops s) (s_line s) (s_t s) (s_goto s) (s_else s) (s_dataline s) (s_datatok s) (s_out s) (s_save s).
Definition with_loops (s : state) (l : list looprec) : state :=
  mkState (s_env s) l (s_line s) (s_t s) (s_goto s) (s_else s) (s_dataline s) (s_datatok s) (s_out s) (s_save s).
Definition with_pos (s : state) (ln : option nat) (t : list tok) : state :=
  mkState (s_env s) (s_loops s) ln t (s_goto s) (s_else s) (s_dataline s) (s_datatok s) (s_out s) (s_save s).
Definition with_goto (s : state) (ln : option nat) : state :=
  mkState (s_env s) (s_loops s) ln [] true (s_else s) (s_dataline s) (s_datatok s) (s_out s) (s_save s).
Definition with_else (s : state) : state :=
  mkState (s_env s) (s_loops s) (s_line s) (s_t s) (s_goto s) true (s_dataline s) (s_datatok s) (s_out s) (s_save s).
Definition with_data (s : state) (dl : option nat) (dt : list tok) : state :=
  mkState (s_env s) (s_loops s) (s_line s) (s_t s) (s_goto s) (s_else s) dl dt (s_out s) (s_save s).
Definition add_out (s : state) (o : out) : state :=
  mkState (s_env s) (s_loops s) (s_line s) (s_t s) (s_goto s) (s_else s) (s_dataline s) (s_datatok s) (o :: s_out s) (s_save s).
Definition with_save (s : state) (x : num) : state :=
  mkState (s_env s) (s_loops s) (s_line s) (s_t s) (s_goto s) (s_else s) (s_dataline s) (s_datatok s) (s_out s) (Some x).

Variable prog : program.
Variable efuel : nat.          (* fuel handed to every expression evaluation *)

Definition line_toks (i : nat) : list tok := match nth_error prog i with Some (_, ts) => ts | None => [] end.
Definition next_line (i : nat) : option nat := if Nat.ltb (S i) (List.length prog) then Some (S i) else None.

Fixpoint find_line_from (p : program) (n : Z) (i : nat) : option nat :=
  match p with
  | [] => None
  | (m, _) :: r => if Z.eqb m n then Some i else find_line_from r n (S i)
  end.
Definition findline (n : Z) : option nat := find_line_from prog n 0.

Definition mustfindline (n : Z) : res nat :=
  match findline n with Some i => Ok i | None => Err "Undefined line" end.

Definition iseos (t : list tok) : bool :=
  match t with [] => true | TK Kelse :: _ => true | TK Kcolon :: _ => true | _ => false end.

Fixpoint skiptoeos (t : list tok) : list tok :=
  match t with
  | [] => []
  | TK Kelse :: _ => t
  | TK Kcolon :: _ => t
  | _ :: r => skiptoeos r
  end.

Definition is_sep (t : tok) : bool := tok_is Ksemi t || tok_is Kcomma t.

(* ------------------------------------------------------------------ variables *)
Fixpoint set_s {A} (l : list (string * A)) (k : string) (v : A) : list (string * A) :=
  match l with
  | [] => [(k, v)]
  | (k', v') :: r => if String.eqb k' k then (k, v) :: r else (k', v') :: set_s r k v
  end.

Fixpoint set_z {A} (l : list (Z * A)) (k : Z) (v : A) : list (Z * A) :=
  match l with
  | [] => [(k, v)]
  | (k', v') :: r => if Z.eqb k' k then (k, v) :: r else (k', v') :: set_z r k v
  end.

Fixpoint set_k {A} (l : list (list Z * A)) (k : list Z) (v : A) : list (list Z * A) :=
  match l with
  | [] => [(k, v)]
  | (k', v') :: r => if zlist_eqb k' k then (k, v) :: r else (k', v') :: set_k r k v
  end.

Inductive target := TScal (name : string) | TElem (name : string) (k : Z).

(* findvar on the left-hand side: the variable token has been consumed, t is what follows it *)
Definition findvar (e : env) (name : string) (t : list tok) : res (target * list tok) :=
  match t with
  | TK Klp :: r1 =>
      match assoc_s (e_arr num e) name with
      | None => Unsup "array used before DIM (automatic dimensioning is not modelled)"
      | Some (dims, _) =>
          bind (intexpr num ops tbl hp efuel e r1) (fun p1 =>
          bind (args_tail num ops tbl hp efuel e (snd p1)) (fun p2 =>
            match flat_index dims (fst p1 :: fst p2) 0%Z with
            | Some k => Ok (TElem name k, snd p2)
            | None => Err "Bad subscript"
            end))
      end
  | _ => match assoc_s (e_arr num e) name with
         | Some _ => Err "Bad subscript"
         | None => Ok (TScal name, t)
         end
  end.

Definition assign (e : env) (tg : target) (v : val) : env :=
  match tg with
  | TScal name => mkEnv num (set_s (e_scal num e) name v) (e_arr num e) (e_saved num e) (e_host num e)
  | TElem name k =>
      match assoc_s (e_arr num e) name with
      | Some (dims, cells) => mkEnv num (e_scal num e) (set_s (e_arr num e) name (dims, set_z cells k v)) (e_saved num e) (e_host num e)
      | None => e
      end
  end.

Definition target_name (tg : target) : string := match tg with TScal n => n | TElem n _ => n end.

Definition scal_num (e : env) (name : string) : num :=
  match assoc_s (e_scal num e) name with Some (VNum x) => x | _ => zero num ops end.

Definition leb (a b : num) : bool := n_ltb ops a b || n_eqb ops a b.     (* C <= *)
Definition geb (a b : num) : bool := n_ltb ops b a || n_eqb ops a b.     (* C >= *)

(* the two loop tests, exactly as written in cmdfor and cmdnext *)
Definition for_skips (st v mx : num) : bool :=
  (geb st (zero num ops) && gtb num ops v mx) || (leb st (zero num ops) && n_ltb ops v mx).
Definition next_continues (st v' mx : num) : bool :=
  (n_ltb ops st (zero num ops) || leb v' mx) && (gtb num ops st (zero num ops) || geb v' mx).

(* number of executions of the body of FOR v = a TO mx STEP st when the body leaves v alone
   (fuel bounds the number of NEXTs counted) *)
Fixpoint next_count (f : nat) (v mx st : num) : nat :=
  match f with
  | O => O
  | S f' => let v' := n_add ops v st in if next_continues st v' mx then S (next_count f' v' mx st) else O
  end.
Definition trip_count (f : nat) (v mx st : num) : nat :=
  if for_skips st v mx then O else S (next_count f v mx st).

(* ------------------------------------------------------------------ statements *)
Definition cmdlet (s : state) (name : string) (t : list tok) : res state :=
  let e := s_env s in
  bind (findvar e name t) (fun p =>
  bind (require Keq (snd p)) (fun r =>
    if last_is_dollar name then
      bind (strexpr num ops tbl hp efuel e r) (fun q => Ok (with_t (with_env s (assign e (fst p) (VStr (fst q)))) (snd q)))
    else
      bind (realexpr num ops tbl hp efuel e r) (fun q => Ok (with_t (with_env s (assign e (fst p) (VNum (fst q)))) (snd q))))).

(* PRINT / PUNCH / SAVE : `while (!iseos) { separator -> skip ; else expr }` *)
Fixpoint cmdoutput (f : nat) (mk : val -> out) (s : state) (t : list tok) (sep_last : bool) : res (state * bool) :=
  match f with
  | O => NoFuel
  | S f' =>
      if iseos t then Ok (with_t s t, sep_last) else
      match t with
      | x :: r =>
          if is_sep x then cmdoutput f' mk s r true
          else bind (expr num ops tbl hp efuel (s_env s) t) (fun p => cmdoutput f' mk (add_out s (mk (fst p))) (snd p) false)
      | [] => Ok (with_t s t, sep_last)
      end
  end.

Definition cmdprint (s : state) (t : list tok) : res state :=
  bind (cmdoutput (S (List.length t)) OPrint s t false) (fun p =>
    Ok (if snd p then fst p else add_out (fst p) OPrintNl)).

Definition cmdpunch (s : state) (t : list tok) : res state :=
  bind (cmdoutput (S (List.length t)) OPunch s t false) (fun p => Ok (fst p)).

Fixpoint cmdsave (f : nat) (s : state) (t : list tok) : res state :=
  match f with
  | O => NoFuel
  | S f' =>
      if iseos t then Ok (with_t s t) else
      match t with
      | x :: r =>
          if is_sep x then cmdsave f' s r
          else bind (expr num ops tbl hp efuel (s_env s) t) (fun p =>
                 match fst p with
                 | VStr _ => Err "Syntax_error: in SAVE command"
                 | VNum v => cmdsave f' (with_save s v) (snd p)
                 end)
      | [] => Ok (with_t s t)
      end
  end.

Definition cmdput (s : state) (t : list tok) : res state :=
  let e := s_env s in
  bind (require Klp t) (fun r1 =>
  bind (realexpr num ops tbl hp efuel e r1) (fun p1 =>
  bind (args_tail num ops tbl hp efuel e (snd p1)) (fun p2 =>
    Ok (with_t (with_env s (mkEnv num (e_scal num e) (e_arr num e) (set_k (e_saved num e) (fst p2) (fst p1)) (e_host num e))) (snd p2))))).

Definition cmdgoto (s : state) (t : list tok) : res state :=
  bind (intexpr num ops tbl hp efuel (s_env s) t) (fun p =>
  bind (mustfindline (fst p)) (fun l => Ok (with_goto s (Some l)))).

(* the token skipping of cmdif when the condition is 0 *)
Fixpoint if_skip (t : list tok) (i : Z) : list tok :=
  match t with
  | [] => []
  | x :: r =>
      let i' := if tok_is Kif x then (i + 1)%Z else if tok_is Kelse x then (i - 1)%Z else i in
      if (0 <=? i')%Z then if_skip r i' else r
  end.

Definition cmdif (s : state) (t : list tok) : res state :=
  bind (realexpr num ops tbl hp efuel (s_env s) t) (fun p =>
  bind (require Kthen (snd p)) (fun r =>
    let r' := if is_zero num ops (fst p) then if_skip r 0%Z else r in
    match r' with
    | TNum _ _ :: _ => cmdgoto s r'
    | TNumBad :: _ => Unsup "numeric literal form"
    | _ => Ok (with_else (with_t s r'))
    end)).

(* scanning forward over the rest of the program: position = (line, remaining tokens) *)
Definition advance (ln : option nat) : option (nat * list tok) :=
  match ln with
  | None => None
  | Some i => match next_line i with Some j => Some (j, line_toks j) | None => None end
  end.

Definition first_is_var (name : string) (t : list tok) : bool :=
  match t with TVar n :: _ => String.eqb n name | _ => false end.

(* cmdfor's search for the matching NEXT; None = "FOR without NEXT" *)
Fixpoint for_skip (f : nat) (name : string) (ln : option nat) (t : list tok) (i j : Z) : res (option (option nat * list tok)) :=
  match f with
  | O => NoFuel
  | S f' =>
      match t with
      | [] => match advance ln with
              | None => Ok None
              | Some (l', t') => for_skip f' name (Some l') t' i j
              end
      | x :: r =>
          let same := first_is_var name r in
          let '(i1, j1) := if tok_is Kfor x then (if same then (i, j + 1) else (i + 1, j))%Z else (i, j) in
          let '(i2, j2) := if tok_is Knext x then (if same then (i1, j1 - 1) else (i1 - 1, j1))%Z else (i1, j1) in
          if ((0 <=? i2) && (0 <=? j2))%Z then for_skip f' name ln r i2 j2
          else Ok (Some (ln, skiptoeos r))
      end
  end.

Definition total_tokens : nat := fold_right (fun l n => (S (List.length (snd l)) + n)%nat) 0%nat prog.
Definition scan_fuel : nat := (total_tokens + List.length prog + 8)%nat.

Definition cmdfor (s : state) (t : list tok) : res state :=
  let e := s_env s in
  match t with
  | TVar name :: r0 =>
      bind (findvar e name r0) (fun p =>
        match fst p with
        | TElem _ _ => Unsup "array element as FOR variable"
        | TScal _ =>
            if last_is_dollar name then Err "Syntax_error: error in FOR command" else
            bind (require Keq (snd p)) (fun r1 =>
            bind (realexpr num ops tbl hp efuel e r1) (fun p1 =>
            let e1 := assign e (TScal name) (VNum (fst p1)) in
            bind (require Kto (snd p1)) (fun r2 =>
            bind (realexpr num ops tbl hp efuel e1 r2) (fun p2 =>
            bind (match snd p2 with
                  | TK Kstep :: r3 => realexpr num ops tbl hp efuel e1 r3
                  | r3 => Ok (n_ofZ ops 1%Z, r3)
                  end) (fun p3 =>
            let v := fst p1 in let mx := fst p2 in let st := fst p3 in let t' := snd p3 in
            let s1 := with_env s e1 in
            if for_skips st v mx then
              bind (for_skip scan_fuel name (s_line s) t' 0%Z 0%Z) (fun o =>
                match o with
                | None => Err "FOR without NEXT"
                | Some (ln, t'') => Ok (with_pos s1 ln t'')
                end)
            else Ok (with_t (with_loops s1 (LFor name mx st (s_line s) t' :: s_loops s)) t'))))))
        end)
  | _ => Err "Syntax_error: can`t find variable"
  end.

(* cmdnext: pop loop records until a FOR record (for this variable when one is named) is on top *)
Fixpoint next_find (v : option string) (l : list looprec) : res (list looprec) :=
  match l with
  | [] => Err "NEXT without FOR"
  | LGosub _ _ :: _ => Err "NEXT without FOR"
  | LFor name _ _ _ _ :: r =>
      match v with
      | None => Ok l
      | Some n => if String.eqb n name then Ok l else next_find v r
      end
  | LWhile _ _ :: r => next_find v r
  end.

Definition cmdnext (s : state) (t : list tok) : res state :=
  let e := s_env s in
  bind (if iseos t then Ok (None, t)
        else match t with
             | TVar name :: r0 => bind (findvar e name r0) (fun p => Ok (Some name, snd p))
             | _ => Err "Syntax_error: can`t find variable"
             end) (fun pv =>
  bind (next_find (fst pv) (s_loops s)) (fun l =>
    match l with
    | LFor name mx st hl ht :: rest =>
        let v' := n_add ops (scal_num e name) st in
        let e' := assign e (TScal name) (VNum v') in
        if next_continues st v' mx then
          Ok (with_pos (with_loops (with_env s e') l) hl ht)
        else Ok (with_t (with_loops (with_env s e') rest) (snd pv))
    | _ => Err "NEXT without FOR"
    end)).

(* skiploop(up, dn) : None = ran off the end of the program *)
Fixpoint skiploop (f : nat) (up dn : kw) (ln : option nat) (t : list tok) (i : Z) : res (option (option nat * list tok)) :=
  match f with
  | O => NoFuel
  | S f' =>
      match t with
      | [] => match advance ln with
              | None => Ok None
              | Some (l', t') => skiploop f' up dn (Some l') t' i
              end
      | x :: r =>
          let i1 := if tok_is up x then (i + 1)%Z else i in
          let i2 := if tok_is dn x then (i1 - 1)%Z else i1 in
          if (0 <=? i2)%Z then skiploop f' up dn ln r i2 else Ok (Some (ln, r))
      end
  end.

Definition cmdwhile (s : state) (t : list tok) : res state :=
  let s1 := with_loops s (LWhile (s_line s) t :: s_loops s) in
  if iseos t then Ok (with_t s1 t) else
  bind (realexpr num ops tbl hp efuel (s_env s) t) (fun p =>
    if negb (is_zero num ops (fst p)) then Ok (with_t s1 (snd p)) else
    bind (skiploop scan_fuel Kwhile Kwend (s_line s) (snd p) 0%Z) (fun o =>
      match o with
      | None => Err "WHILE without WEND"
      | Some (ln, t') => Ok (with_pos s ln (skiptoeos t'))
      end)).

Fixpoint wend_find (l : list looprec) : res (list looprec) :=
  match l with
  | [] => Err "WEND without WHILE"
  | LGosub _ _ :: _ => Err "WEND without WHILE"
  | LWhile _ _ :: _ => Ok l
  | LFor _ _ _ _ _ :: r => wend_find r
  end.

Definition cmdwend (s : state) (t : list tok) : res state :=
  bind (wend_find (s_loops s)) (fun l =>
    match l with
    | LWhile hl ht :: rest =>
        bind (if iseos t then Ok (true, t)
              else bind (realexpr num ops tbl hp efuel (s_env s) t) (fun p => Ok (is_zero num ops (fst p), snd p))) (fun pf =>
        let leave := Ok (with_t (with_loops s rest) (snd pf)) in
        if fst pf then
          if iseos ht then Ok (with_pos (with_loops s l) hl ht)
          else bind (realexpr num ops tbl hp efuel (s_env s) ht) (fun q =>
                 if is_zero num ops (fst q) then leave else Ok (with_pos (with_loops s l) hl (snd q)))
        else leave)
    | _ => Err "WEND without WHILE"
    end).

Definition cmdgosub (s : state) (t : list tok) : res state :=
  cmdgoto (with_loops s (LGosub (s_line s) t :: s_loops s)) t.

Fixpoint return_find (l : list looprec) : res (option nat * list tok * list looprec) :=
  match l with
  | [] => Err "RETURN without GOSUB"
  | LGosub hl ht :: r => Ok (hl, ht, r)
  | _ :: r => return_find r
  end.

Definition cmdreturn (s : state) (t : list tok) : res state :=
  bind (return_find (s_loops s)) (fun p =>
    let '(hl, ht, rest) := p in Ok (with_pos (with_loops s rest) hl (skiptoeos ht))).

(* cmdread: locate the next DATA item; position (dataline, t) *)
Fixpoint data_seek (f : nat) (dl : option nat) (t : list tok) : res (option nat * list tok) :=
  match f with
  | O => NoFuel
  | S f' =>
      match t with
      | [] => match advance dl with
              | None => Err "Out of Data"
              | Some (l', t') => data_seek f' (Some l') t'
              end
      | x :: r => if tok_is Kdata x && negb (iseos r) then Ok (dl, r) else data_seek f' dl r
      end
  end.

Fixpoint cmdread (f : nat) (s : state) (t : list tok) : res state :=
  match f with
  | O => NoFuel
  | S f' =>
      match t with
      | TVar name :: r0 =>
          bind (findvar (s_env s) name r0) (fun p =>
          let tok := snd p in
          let '(dl0, dt0) := match s_dataline s with
                             | None => (Some 0%nat, line_toks 0)
                             | Some _ => (s_dataline s, s_datatok s)
                             end in
          bind (match dt0 with
                | TK Kcomma :: r => Ok (dl0, r)
                | _ => data_seek scan_fuel dl0 dt0
                end) (fun pos =>
          bind (if last_is_dollar name
                then bind (strexpr num ops tbl hp efuel (s_env s) (snd pos)) (fun q => Ok (VStr (fst q), snd q))
                else bind (realexpr num ops tbl hp efuel (s_env s) (snd pos)) (fun q => Ok (VNum (fst q), snd q))) (fun q =>
          let s1 := with_data (with_env s (assign (s_env s) (fst p) (fst q))) (fst pos) (snd q) in
          if iseos tok then Ok (with_t s1 tok)
          else bind (require Kcomma tok) (fun r => if iseos r then Ok (with_t s1 r) else cmdread f' s1 r))))
      | _ => Err "Syntax_error: can`t find variable"
      end
  end.

Definition cmdrestore (s : state) (t : list tok) : res state :=
  if iseos t then Ok (with_t (with_data s None []) t)
  else bind (intexpr num ops tbl hp efuel (s_env s) t) (fun p =>
       bind (mustfindline (fst p)) (fun l => Ok (with_t (with_data s (Some l) (line_toks l)) (snd p)))).

Fixpoint on_skip (f : nat) (i : Z) (t : list tok) : res (list tok) :=
  match f with
  | O => NoFuel
  | S f' =>
      if ((1 <? i)%Z && negb (iseos t))%bool then
        match t with
        | TNum _ _ :: r => if iseos r then on_skip f' (i - 1)%Z r
                           else bind (require Kcomma r) (fun r' => on_skip f' (i - 1)%Z r')
        | _ => Err "Syntax_error: missing number"
        end
      else Ok t
  end.

Definition cmdon (s : state) (t : list tok) : res state :=
  bind (intexpr num ops tbl hp efuel (s_env s) t) (fun p =>
  bind (match snd p with
        | TK Kgosub :: r => Ok (with_loops s (LGosub (s_line s) (snd p) :: s_loops s), r)
        | r => bind (require Kgoto r) (fun r' => Ok (s, r'))
        end) (fun q =>
    let s1 := fst q in
    if (fst p <? 1)%Z then Ok (with_t s1 (skiptoeos (snd q)))
    else bind (on_skip (S (List.length (snd q))) (fst p) (snd q)) (fun r =>
         if iseos r then Ok (with_t s1 r) else cmdgoto s1 r))).

Definition maxdims := 4%nat.

(* the `do { k = intexpr + 1 ... } while (!done)` of cmddim *)
Fixpoint dim_list (f : nat) (e : env) (t : list tok) (n : nat) : res (list Z * list tok) :=
  match f with
  | O => NoFuel
  | S f' =>
      bind (intexpr num ops tbl hp efuel e t) (fun p =>
        let k := (fst p + 1)%Z in
        if (k <? 1)%Z then Err "Bad subscript" else
        if Nat.leb maxdims n then Err "Bad subscript" else
        match snd p with
        | TK Krp :: r => Ok ([k], r)
        | r => bind (require Kcomma r) (fun r' => bind (dim_list f' e r' (S n)) (fun q => Ok (k :: fst q, snd q)))
        end)
  end.

Fixpoint cmddim (f : nat) (s : state) (t : list tok) : res state :=
  match f with
  | O => NoFuel
  | S f' =>
      match t with
      | TVar name :: r0 =>
          let e := s_env s in
          match assoc_s (e_arr num e) name with
          | Some _ => Err "Array already dimensioned before"
          | None =>
              bind (require Klp r0) (fun r1 =>
              bind (dim_list (S (List.length r1)) e r1 0) (fun p =>
                let e' := mkEnv num (e_scal num e) ((name, (fst p, [])) :: e_arr num e) (e_saved num e) (e_host num e) in
                let s1 := with_env s e' in
                if iseos (snd p) then Ok (with_t s1 (snd p))
                else bind (require Kcomma (snd p)) (fun r => if iseos r then Ok (with_t s1 r) else cmddim f' s1 r)))
          end
      | _ => Err "Syntax_error: error in DIM command"
      end
  end.

(* ------------------------------------------------------------------ exec *)
Fixpoint skip_colons (t : list tok) : list tok :=
  match t with TK Kcolon :: r => skip_colons r | _ => t end.

(* the switch of exec(): [k] is the statement token, t what follows it *)
Definition dispatch (s : state) (first : tok) (t : list tok) : res state :=
  match first with
  | TK Krem => Ok (with_t s t)
  | TK Klet => match t with
               | TVar name :: r => cmdlet s name r
               | _ => Err "Syntax_error: can`t find variable"
               end
  | TVar name => cmdlet s name t
  | TK Kprint => cmdprint s t
  | TK Kpunch => cmdpunch s t
  | TK Ksave => cmdsave (S (List.length t)) s t
  | TK Kput => cmdput s t
  | TK Kgoto => cmdgoto s t
  | TK Kif => cmdif s t
  | TK Kelse => Ok (with_t s [])
  | TK Kend => Ok (with_pos s None [])
  | TK Kstop => Err "Break"
  | TK Kfor => cmdfor s t
  | TK Knext => cmdnext s t
  | TK Kwhile => cmdwhile s t
  | TK Kwend => cmdwend s t
  | TK Kgosub => cmdgosub s t
  | TK Kreturn => cmdreturn s t
  | TK Kread => cmdread (S (List.length t)) s t
  | TK Kdata => Ok (with_t s (skiptoeos t))
  | TK Krestore => cmdrestore s t
  | TK Kon => cmdon s t
  | TK Kdim => cmddim (S (List.length t)) s t
  | TK Kerase => Unsup "ERASE"
  | TK (Kother _) => Unsup "command outside the model"
  | TNumBad => Unsup "numeric literal form"
  | _ => Err "Illegal command in line"
  end.

Inductive stepres := Running (s : state) | Finished (s : state).

(* one iteration of the inner do-while of exec(), plus the line advance when the line is exhausted.
   [s_t s] holds stmttok on entry. *)
Definition step (s : state) : res stepres :=
  let stmttok := skip_colons (s_t s) in
  let s0 := mkState (s_env s) (s_loops s) (s_line s) stmttok false false (s_dataline s) (s_datatok s) (s_out s) (s_save s) in
  bind (match stmttok with
        | [] => Ok s0
        | first :: t => dispatch s0 first t
        end) (fun s1 =>
    if negb (s_else s1) && negb (iseos (s_t s1)) then Err "Extra information on line"
    else
      match s_t s1 with
      | _ :: _ => Ok (Running s1)
      | [] =>
          match s_line s1 with
          | None => Ok (Finished s1)
          | Some i =>
              let ln := if s_goto s1 then Some i else next_line i in
              match ln with
              | None => Ok (Finished (with_pos s1 None []))
              | Some j => Ok (Running (with_pos s1 (Some j) (line_toks j)))
              end
          end
      end).

Fixpoint run (f : nat) (s : state) : res state :=
  match f with
  | O => NoFuel
  | S f' => bind (step s) (fun r => match r with Running s' => run f' s' | Finished s' => Ok s' end)
  end.

End Exec.

(* ------------------------------------------------------------------ whole programs *)
Section Whole.
Variable num : Type.
Variable ops : numops num.
Variable tbl : kwtable.
Variable hp : bool.

(* parseinput's line store: ascending order, a line with an existing number replaces it,
   an empty numbered line deletes *)
Fixpoint insert_line (p : program) (n : Z) (ts : list tok) : program :=
  match p with
  | [] => match ts with [] => [] | _ => [(n, ts)] end
  | (m, l) :: r =>
      if (m <? n)%Z then (m, l) :: insert_line r n ts
      else if (m =? n)%Z then match ts with [] => r | _ => (n, ts) :: r end
      else match ts with [] => p | _ => (n, ts) :: p end
  end.

Fixpoint compile (lines : list string) (p : program) : res program :=
  match lines with
  | [] => Ok p
  | s :: r =>
      match parse_line tbl s with
      | LineErr m => Err m
      | LineOk n ts =>
          if (n =? 0)%Z then
            match ts with
            | [] => compile r p
            | _ => Unsup "unnumbered line (executed at compile time by basic_compile)"
            end
          else compile r (insert_line p n ts)
      end
  end.

Definition max_len (p : program) : nat := fold_right (fun l n => Nat.max (List.length (snd l)) n) 0%nat p.

Definition empty_env : env num := mkEnv num [] [] [] [].

Inductive result :=
 | RDone (outs : list (out num)) (save : option num) (saved : list (list Z * num))
 | RError (msg : string)
 | RUnsup (msg : string)
 | RNoFuel.

(* compile, then "run": start at the first line with cleared variables, loops and data pointer.
   [saved0] is the PUT/GET store left by earlier programs of the same run. *)
Definition run_program (fuel : nat) (saved0 : list (list Z * num)) (host : list (string * num)) (lines : list string) : result :=
  match compile lines [] with
  | Err m => RError m
  | Unsup m => RUnsup m
  | NoFuel => RNoFuel
  | Ok p =>
      match p with
      | [] => RDone [] None saved0
      | (_, ts) :: _ =>
          let ef := (600 + 8 * max_len p)%nat in
          let s0 := mkState num (mkEnv num [] [] saved0 host) [] (Some 0%nat) ts false false None [] [] None in
          match run num ops tbl hp p ef fuel s0 with
          | Ok s => RDone (rev (s_out num s)) (s_save num s) (e_saved num (s_env num s))
          | Err m => RError m
          | Unsup m => RUnsup m
          | NoFuel => RNoFuel
          end
      end
  end.

End Whole.
