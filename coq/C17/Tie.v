(* C17 — boolean obligations on the tables regenerated from the C++ source (coq/Gen/Gen_C17_basic.v).
   Each checker is an executable function; Props/Properties_C17.v states `checker generated_table = true`
   (accepted by vm_compute when the source still has the shape the model assumes) together with the
   soundness lemmas below that say what a `true` means. *)
From Coq Require Import ZArith Bool List String Ascii Lia.
From IPV.C17 Require Import Num Tok Eval.
Import ListNotations.
Open Scope string_scope.

(* ------------------------------------------------------------------ keyword table *)
(* the documented spellings the model relies on, with the model keyword each must denote *)
Definition doc_keywords : list (string * kw) :=
  [("and", Kand); ("or", Kor); ("xor", Kxor); ("not", Knot); ("mod", Kmod);
   ("sqr", Ksqr); ("sqrt", Ksqrt); ("sin", Ksin); ("cos", Kcos); ("tan", Ktan); ("arctan", Karctan);
   ("log", Klog); ("log10", Klog10); ("exp", Kexp); ("abs", Kabs); ("sgn", Ksgn); ("floor", Kfloor); ("ceil", Kceil);
   ("str$", Kstr_); ("val", Kval); ("chr$", Kchr_); ("asc", Kasc); ("mid$", Kmid_); ("len", Klen); ("instr", Kinstr);
   ("ltrim", Kltrim); ("rtrim", Krtrim); ("trim", Ktrim); ("pad", Kpad);
   ("let", Klet); ("print", Kprint); ("punch", Kpunch); ("save", Ksave); ("put", Kput); ("get", Kget); ("exists", Kexists);
   ("if", Kif); ("then", Kthen); ("else", Kelse); ("end", Kend); ("stop", Kstop); ("for", Kfor); ("to", Kto); ("step", Kstep);
   ("next", Knext); ("while", Kwhile); ("wend", Kwend); ("goto", Kgoto); ("gosub", Kgosub); ("return", Kreturn);
   ("read", Kread); ("data", Kdata); ("restore", Krestore); ("on", Kon); ("dim", Kdim); ("rem", Krem); ("erase", Kerase)].

Definition kw_denotes (tbl : kwtable) (p : string * kw) : bool :=
  match kw_lookup tbl (fst p) with
  | Some en => kw_eqb (kw_of_enum en) (snd p)
  | None => false
  end.

(* no other spelling may denote one of the operator / structural keywords of the model (an alias would
   silently change which words are variables) *)
Definition structural (k : kw) : bool :=
  match k with
  | Kother _ => false
  | Kpad | Kprint | Kgoto => false   (* "pad"/"pad$", "print"/"?" are documented aliases; "go to" (with a blank) can never be scanned *)
  | _ => true
  end.

Fixpoint count_kw (tbl : kwtable) (k : kw) : nat :=
  match tbl with
  | [] => 0
  | (_, en) :: r => (if kw_eqb (kw_of_enum en) k then 1 else 0) + count_kw r k
  end.

Definition punctuation (k : kw) : bool :=
  match k with
  | Kplus | Kminus | Ktimes | Kdiv | Kup | Klp | Krp | Kcomma | Ksemi | Kcolon | Keq | Klt | Kgt | Kle | Kge | Kne => true
  | _ => false
  end.

Definition keywords_ok (tbl : kwtable) : bool :=
  forallb (kw_denotes tbl) doc_keywords
  && forallb (fun p => negb (structural (snd p)) || Nat.eqb (count_kw tbl (snd p)) 1) doc_keywords.

Lemma keywords_ok_sound : forall tbl, keywords_ok tbl = true ->
  forall s k, In (s, k) doc_keywords -> exists en, kw_lookup tbl s = Some en /\ kw_eqb (kw_of_enum en) k = true.
Proof.
  intros tbl H s k Hin. unfold keywords_ok in H. apply andb_prop in H. destruct H as [H _].
  rewrite forallb_forall in H. specialize (H _ Hin). unfold kw_denotes in H. simpl in H.
  destruct (kw_lookup tbl s) as [en|]; [exists en; auto | discriminate].
Qed.

(* ------------------------------------------------------------------ precedence levels *)
Definition level_name (L : nat) : string :=
  match L with 0 => "expr" | 1 => "andexpr" | 2 => "relexpr" | 3 => "sexpr" | 4 => "term" | 5 => "upexpr" | _ => "factor" end.

Fixpoint mem_s (s : string) (l : list string) : bool :=
  match l with [] => false | x :: r => String.eqb x s || mem_s s r end.

Definition accepts (L : nat) (en : string) : bool :=
  match op_at L (TK (kw_of_enum en)) with Some _ => true | None => false end.

(* entry for level L: right function names, and the loop accepts exactly the enumerators op_at accepts *)
Definition level_entry_ok (enum : list (string * Z)) (L : nat) (ent : string * string * string * list string) : bool :=
  let '(fn, first, rhs, opl) := ent in
  String.eqb fn (level_name L) && String.eqb first (level_name (S L)) && String.eqb rhs (level_name (rhs_level L))
  && forallb (fun p => Bool.eqb (mem_s (fst p) opl) (accepts L (fst p))) enum.

Fixpoint levels_ok_from (enum : list (string * Z)) (L : nat) (t : list (string * string * string * list string)) : bool :=
  match t with
  | [] => Nat.eqb L 6
  | ent :: r => level_entry_ok enum L ent && levels_ok_from enum (S L) r
  end.

Definition levels_ok (t : list (string * string * string * list string)) (enum : list (string * Z)) : bool :=
  levels_ok_from enum 0 t.

Lemma levels_ok_sound : forall t enum, levels_ok t enum = true ->
  forall L, L < 6 -> exists first rhs opl,
    nth_error t L = Some (level_name L, first, rhs, opl) /\ first = level_name (S L) /\ rhs = level_name (rhs_level L) /\
    forall en z, In (en, z) enum -> (mem_s en opl = true <-> op_at L (TK (kw_of_enum en)) <> None).
Proof.
  intros t enum H. unfold levels_ok in H.
  assert (G : forall t k, levels_ok_from enum k t = true -> forall L, k <= L -> L < 6 ->
          exists first rhs opl, nth_error t (L - k) = Some (level_name L, first, rhs, opl) /\ first = level_name (S L) /\
          rhs = level_name (rhs_level L) /\
          forall en z, In (en, z) enum -> (mem_s en opl = true <-> op_at L (TK (kw_of_enum en)) <> None)).
  { induction t0 as [|ent r IH]; intros k Hk L HkL HL.
    - simpl in Hk. apply Nat.eqb_eq in Hk. subst. lia.
    - simpl in Hk. apply andb_prop in Hk. destruct Hk as [He Hr].
      destruct (Nat.eq_dec k L) as [->|Hne].
      + rewrite Nat.sub_diag. simpl. destruct ent as [[[fn first] rhs] opl]. unfold level_entry_ok in He.
        apply andb_prop in He. destruct He as [He Hd]. apply andb_prop in He. destruct He as [He Hc].
        apply andb_prop in He. destruct He as [Ha Hb].
        apply String.eqb_eq in Ha. apply String.eqb_eq in Hb. apply String.eqb_eq in Hc. subst.
        exists (level_name (S L)), (level_name (rhs_level L)), opl. repeat split; auto.
        * intros Hm. rewrite forallb_forall in Hd. specialize (Hd _ H0). simpl in Hd. rewrite Hm in Hd.
          unfold accepts in Hd. destruct (op_at L (TK (kw_of_enum en))); [discriminate | discriminate].
        * intros Hm. rewrite forallb_forall in Hd. specialize (Hd _ H0). simpl in Hd.
          unfold accepts in Hd. destruct (op_at L (TK (kw_of_enum en))); [| congruence].
          destruct (mem_s en opl); [reflexivity | discriminate].
      + assert (HkL' : S k <= L) by lia.
        destruct (IH (S k) Hr L HkL' HL) as (first & rhs & opl & Hn & ?).
        exists first, rhs, opl. split; auto.
        replace (L - k) with (S (L - S k)) by lia. simpl. exact Hn. }
  intros L HL. specialize (G t 0 H L (Nat.le_0_l L) HL). rewrite Nat.sub_0_r in G. exact G.
Qed.

(* ------------------------------------------------------------------ statement dispatch *)
Definition expected_dispatch : list (string * string) :=
  [("toklet", "cmdlet"); ("tokvar", "cmdlet"); ("tokprint", "cmdprint"); ("tokpunch", "cmdpunch"); ("toksave", "cmdsave");
   ("tokput", "cmdput"); ("tokgoto", "cmdgoto"); ("tokif", "cmdif"); ("tokelse", "cmdelse"); ("tokend", "cmdend");
   ("tokfor", "cmdfor"); ("toknext", "cmdnext"); ("tokwhile", "cmdwhile"); ("tokwend", "cmdwend"); ("tokgosub", "cmdgosub");
   ("tokreturn", "cmdreturn"); ("tokread", "cmdread"); ("tokdata", "cmddata"); ("tokrestore", "cmdrestore"); ("tokon", "cmdon");
   ("tokdim", "cmddim"); ("tokrem", ""); ("tokstop", "")].

Fixpoint assoc_ss {A} (l : list (string * A)) (k : string) : option A :=
  match l with [] => None | (k', v) :: r => if String.eqb k' k then Some v else assoc_ss r k end.

Definition dispatch_ok (t : list (string * string)) : bool :=
  forallb (fun p => match assoc_ss t (fst p) with Some c => String.eqb c (snd p) | None => false end) expected_dispatch.

(* ------------------------------------------------------------------ factor cases: which libm / helper each function token uses *)
Definition libm_names : list string :=
  ["sqrt"; "ceil"; "floor"; "log10"; "sin"; "cos"; "tan"; "atan"; "log"; "exp"; "fabs"; "pow"; "sinh"; "cosh"; "asin"; "acos"; "log2"; "exp2"; "round"; "trunc"].

Definition expected_libm : list (string * list string) :=
  [("toksqr", []); ("toksqrt", ["sqrt"]); ("tokceil", ["ceil"]); ("tokfloor", ["floor"]); ("toklog10", ["log10"]);
   ("toksin", ["sin"]); ("tokcos", ["cos"]); ("toktan", ["sin"; "cos"]); ("tokarctan", ["atan"]); ("toklog", ["log"]);
   ("tokexp", ["exp"]); ("tokabs", ["fabs"]); ("toksgn", []); ("tokminus", []); ("tokplus", []); ("toknot", [])].

Definition same_set (a b : list string) : bool :=
  forallb (fun x => mem_s x b) a && forallb (fun x => mem_s x a) b.

(* operand parsers: the operand of these tokens is a factor (realfactor / intfactor / strfactor / stringfactor),
   the operands of MID$ PAD are full expressions *)
Definition expected_operand : list (string * list string) :=
  [("toksqr", ["realfactor"]); ("toksqrt", ["realfactor"]); ("tokceil", ["realfactor"]); ("tokfloor", ["realfactor"]);
   ("toklog10", ["realfactor"]); ("toksin", ["realfactor"]); ("tokcos", ["realfactor"]); ("toktan", ["realfactor"]);
   ("tokarctan", ["realfactor"]); ("toklog", ["realfactor"]); ("tokexp", ["realfactor"]); ("tokabs", ["realfactor"]);
   ("toksgn", ["realfactor"]); ("tokminus", ["realfactor"]); ("tokplus", ["realfactor"]); ("toknot", ["intfactor"]);
   ("tokstr_", ["realfactor"]); ("tokval", ["strfactor"; "expr"]); ("tokchr_", ["intfactor"]); ("tokasc", ["strfactor"]);
   ("toklen", ["strfactor"]); ("tokmid_", ["strexpr"; "intexpr"]); ("tokinstr", ["stringfactor"]); ("tokltrim", ["stringfactor"]);
   ("tokrtrim", ["stringfactor"]); ("toktrim", ["stringfactor"]); ("tokpad", ["strexpr"; "intexpr"]); ("tokget", ["intexpr"]);
   ("tokexists", ["intexpr"]); ("toklp", ["expr"])].

Definition operand_names : list string :=
  ["realfactor"; "intfactor"; "strfactor"; "stringfactor"; "realexpr"; "intexpr"; "strexpr"; "stringexpr"; "expr"; "factor"].

Definition factor_ok (t : list (string * list string)) : bool :=
  forallb (fun p => match assoc_ss t (fst p) with
                    | Some calls => same_set (filter (fun c => mem_s c libm_names) calls) (snd p)
                    | None => false end) expected_libm
  && forallb (fun p => match assoc_ss t (fst p) with
                       | Some calls => same_set (filter (fun c => mem_s c operand_names) calls) (snd p)
                       | None => false end) expected_operand.

(* ------------------------------------------------------------------ hosts *)
Definition host_functions : list string :=
  ["punch_user_punch"; "print_user_print"; "calc_kinetic_reaction"; "punch_calculate_values"].

Definition hosts_ok (t : list (string * list string)) : bool :=
  forallb (fun h => match assoc_ss t h with
                    | Some calls => mem_s "basic_compile" calls && mem_s "basic_run" calls
                    | None => false end) host_functions
  && match assoc_ss t "Phreeqc::basic_run" with Some ["basic_run"] => true | _ => false end
  && match assoc_ss t "Phreeqc::basic_compile" with Some ["basic_compile"] => true | _ => false end.

(* ------------------------------------------------------------------ findvar: offset of an array element
   The translator executes the subscript loop of PBasic::findvar symbolically for 1..4 dimensions (maxdims = 4) and
   emits the offset as a polynomial in canonical form (monomials = sorted symbol lists, sorted), the bounds tests and
   the commas required.  Obligation: they are the row-major polynomials below; [row_major_is_flat_index] shows that those
   are what the model's [flat_index] computes, for all extents and all in-range subscripts. *)
Definition poly := list (Z * list string).

Definition expected_index (n : nat) : poly :=
  match n with
  | 1 => [(1%Z, ["j0"])]
  | 2 => [(1%Z, ["d1"; "j0"]); (1%Z, ["j1"])]
  | 3 => [(1%Z, ["d1"; "d2"; "j0"]); (1%Z, ["d2"; "j1"]); (1%Z, ["j2"])]
  | 4 => [(1%Z, ["d1"; "d2"; "d3"; "j0"]); (1%Z, ["d2"; "d3"; "j1"]); (1%Z, ["d3"; "j2"]); (1%Z, ["j3"])]
  | _ => []
  end.

Definition expected_bounds (n : nat) : list (string * string) :=
  firstn n [("j0", "d0"); ("j1", "d1"); ("j2", "d2"); ("j3", "d3")].

Definition expected_commas (n : nat) : list nat := seq 0 (n - 1).

Fixpoint slist_eqb (a b : list string) : bool :=
  match a, b with
  | [], [] => true
  | x :: a', y :: b' => String.eqb x y && slist_eqb a' b'
  | _, _ => false
  end.

Fixpoint poly_eqb (p q : poly) : bool :=
  match p, q with
  | [], [] => true
  | (c, m) :: p', (c', m') :: q' => Z.eqb c c' && slist_eqb m m' && poly_eqb p' q'
  | _, _ => false
  end.

Fixpoint pairs_eqb (p q : list (string * string)) : bool :=
  match p, q with
  | [], [] => true
  | (a, b) :: p', (a', b') :: q' => String.eqb a a' && String.eqb b b' && pairs_eqb p' q'
  | _, _ => false
  end.

Fixpoint nats_eqb (p q : list nat) : bool :=
  match p, q with
  | [], [] => true
  | a :: p', b :: q' => Nat.eqb a b && nats_eqb p' q'
  | _, _ => false
  end.

Fixpoint assoc_n {A} (l : list (nat * A)) (k : nat) : option A :=
  match l with [] => None | (k', v) :: r => if Nat.eqb k' k then Some v else assoc_n r k end.

Definition findvar_ok (gi : list (nat * poly)) (gb : list (nat * list (string * string))) (gc : list (nat * list nat)) : bool :=
  forallb (fun n =>
    match assoc_n gi n, assoc_n gb n, assoc_n gc n with
    | Some p, Some b, Some c => poly_eqb p (expected_index n) && pairs_eqb b (expected_bounds n) && nats_eqb c (expected_commas n)
    | _, _, _ => false
    end) [1; 2; 3; 4].

Definition poly_eval (rho : string -> Z) (p : poly) : Z :=
  fold_right (fun t acc => (fst t * fold_right (fun s a => rho s * a) 1 (snd t) + acc)%Z) 0%Z p.

Lemma poly_eqb_eval : forall p q rho, poly_eqb p q = true -> poly_eval rho p = poly_eval rho q.
Proof.
  assert (S : forall a b, slist_eqb a b = true -> a = b).
  { induction a as [|x a IH]; destruct b as [|y b]; simpl; intros H; try discriminate; auto.
    apply andb_prop in H. destruct H as [H1 H2]. apply String.eqb_eq in H1. apply IH in H2. subst. reflexivity. }
  induction p as [|[c m] p IH]; destruct q as [|[c' m'] q]; simpl; intros rho H; try discriminate; auto.
  apply andb_prop in H. destruct H as [H H3]. apply andb_prop in H. destruct H as [H1 H2].
  apply Z.eqb_eq in H1. apply S in H2. subst. unfold poly_eval in *. simpl. rewrite (IH q rho H3). reflexivity.
Qed.

(* the expected polynomials are the model's row-major index, for every extent and every in-range subscript *)
Lemma row_major_is_flat_index : forall (rho : string -> Z),
  let d := fun s => rho s in
  let inr := fun j e => ((0 <=? rho j) && (rho j <? rho e))%Z%bool in
  (inr "j0" "d0" = true -> flat_index [d "d0"] [d "j0"] 0%Z = Some (poly_eval rho (expected_index 1))) /\
  (inr "j0" "d0" = true -> inr "j1" "d1" = true ->
     flat_index [d "d0"; d "d1"] [d "j0"; d "j1"] 0%Z = Some (poly_eval rho (expected_index 2))) /\
  (inr "j0" "d0" = true -> inr "j1" "d1" = true -> inr "j2" "d2" = true ->
     flat_index [d "d0"; d "d1"; d "d2"] [d "j0"; d "j1"; d "j2"] 0%Z = Some (poly_eval rho (expected_index 3))) /\
  (inr "j0" "d0" = true -> inr "j1" "d1" = true -> inr "j2" "d2" = true -> inr "j3" "d3" = true ->
     flat_index [d "d0"; d "d1"; d "d2"; d "d3"] [d "j0"; d "j1"; d "j2"; d "j3"] 0%Z = Some (poly_eval rho (expected_index 4))).
Proof.
  intros rho d inr. unfold d, inr. repeat split; intros; cbn [flat_index];
    repeat match goal with H : _ = true |- _ => rewrite H; clear H end;
    unfold poly_eval, expected_index; cbn [fold_right fst snd]; f_equal; ring.
Qed.
