(* C17 — number structure used by the BASIC interpreter model.

   The interpreter (Tok/Eval/Exec) is written over an abstract record of numeric
   operations [numops num]; the instance [float_ops] below interprets them with Coq's
   primitive binary64 floats, so that + - * / sqrt floor comparisons are bit-exact
   under vm_compute.  fmod is computed exactly (it is exact in IEEE arithmetic);
   exp/log/sin/cos/atan are evaluated with the Interval library at 90 bits and the
   midpoint of the enclosure is rounded to binary64 (they are compared with the C++
   libm results at 1e-12 relative, never bit-exactly). *)
From Coq Require Import Floats ZArith Bool List.
From Bignums Require Import BigZ.
From Interval Require Import Specific_bigint Specific_ops Float_full.
From Interval Require Interval.Float.

Inductive fnid := Fexp | Flog | Flog10 | Fsin | Fcos | Fatan.

Record numops (num : Type) : Type := mkNumOps {
  n_lit : Z -> Z -> option num;      (* decimal literal m * 10^e as strtod would read it; None = outside the modelled fast path *)
  n_ofZ : Z -> num;                  (* (double) of a long *)
  n_add : num -> num -> num;
  n_sub : num -> num -> num;
  n_mul : num -> num -> num;
  n_div : num -> num -> num;
  n_neg : num -> num;
  n_eqb : num -> num -> bool;        (* C ==  *)
  n_ltb : num -> num -> bool;        (* C <   *)
  n_floor : num -> num;
  n_ceil : num -> num;
  n_abs : num -> num;
  n_sqrt : num -> num;
  n_toZ : num -> option Z;           (* (long) x : truncation toward zero; None when undefined behaviour in C *)
  n_fmod : num -> num -> option num; (* C fmod; None outside the modelled domain *)
  n_fn : fnid -> num -> option num   (* libm; None outside the modelled domain *)
}.

Arguments n_lit {num}. Arguments n_ofZ {num}. Arguments n_add {num}. Arguments n_sub {num}.
Arguments n_mul {num}. Arguments n_div {num}. Arguments n_neg {num}. Arguments n_eqb {num}.
Arguments n_ltb {num}. Arguments n_floor {num}. Arguments n_ceil {num}. Arguments n_abs {num}.
Arguments n_sqrt {num}. Arguments n_toZ {num}. Arguments n_fmod {num}. Arguments n_fn {num}.

(* ------------------------------------------------------------------ binary64 instance *)
Module FI.
Module F := SpecificFloat BigIntRadix2.
Module I := FloatIntervalFull F.
End FI.

Section FloatInstance.
Open Scope float_scope.

Definition two52 : float := 0x1p+52.

Definition f_ofN (z : Z) : float := PrimFloat.of_uint63 (Uint63.of_Z z).

(* |z| < 2^63 : correctly rounded; beyond: nan (never reached by generated programs) *)
Definition f_ofZ (z : Z) : float :=
  if (Z.abs z <? 2 ^ 63)%Z then (if (z <? 0)%Z then - f_ofN (- z) else f_ofN z) else nan.

Definition f_floor (x : float) : float :=
  if PrimFloat.abs x <? two52 then
    let r := if 0 <=? x then (x + two52) - two52 else (x - two52) + two52 in
    if x <? r then r - 1 else r
  else x.

Definition f_ceil (x : float) : float := - f_floor (- x).

(* exact integer value of an integral finite float *)
Definition f_int_toZ (x : float) : option Z :=
  match Prim2SF x with
  | S754_zero _ => Some 0%Z
  | S754_finite s m e =>
      let a := if (0 <=? e)%Z then Z.shiftl (Z.pos m) e else Z.shiftr (Z.pos m) (- e) in
      if (a <? 2 ^ 63)%Z then Some (if s then (- a)%Z else a) else None
  | _ => None
  end.

Definition f_toZ (x : float) : option Z :=
  f_int_toZ (if 0 <=? x then f_floor x else f_ceil x).

(* 10^k, 0 <= k <= 22, exactly *)
Definition f_pow10 (k : Z) : float := Z.ldexp (f_ofN (5 ^ k)) k.

(* Clinger fast path: m < 2^53, |e| <= 22 : one correctly rounded operation on exact operands
   is the correctly rounded value of m*10^e, i.e. what strtod returns *)
Definition f_lit (m e : Z) : option float :=
  if ((0 <=? m) && (m <? 2 ^ 53) && (-22 <=? e) && (e <=? 22))%Z%bool then
    Some (if (0 <=? e)%Z then f_ofN m * f_pow10 e else f_ofN m / f_pow10 (- e))
  else None.

(* m * 2^e for a non-negative m whose value is representable *)
Definition f_ofZ_exp (m e : Z) : float :=
  if (m =? 0)%Z then 0 else
  let k := (Z.log2 m - 61)%Z in
  if (0 <? k)%Z then Z.ldexp (f_ofN (Z.shiftr m k)) (e + k) else Z.ldexp (f_ofN m) e.

Definition f_fmod (x y : float) : option float :=
  match Prim2SF x, Prim2SF y with
  | S754_finite sx mx ex, S754_finite _ my ey =>
      let e := Z.min ex ey in
      let A := Z.shiftl (Z.pos mx) (ex - e) in
      let B := Z.shiftl (Z.pos my) (ey - e) in
      let R := (A mod B)%Z in
      let r := f_ofZ_exp R e in
      Some (if sx then - r else r)
  | S754_nan, _ | _, S754_nan => Some nan
  | S754_infinity _, _ => Some nan               (* fmod(inf, y) *)
  | _, S754_zero _ => Some nan                   (* fmod(x, 0) *)
  | _, S754_infinity _ => Some x                 (* fmod(finite, inf) *)
  | S754_zero _, S754_finite _ _ _ => Some x
  end.

Definition iprec : FI.F.precision := FI.F.PtoP 90%positive.

Definition f_to_I (x : float) : option FI.I.type :=
  match Prim2SF x with
  | S754_zero _ => Some (FI.I.bnd FI.F.zero FI.F.zero)
  | S754_finite s m e =>
      let b := Float (BigZ.of_Z (if s then Z.neg m else Z.pos m)) (BigZ.of_Z e) in
      Some (FI.I.bnd b b)
  | _ => None
  end.

Definition f_of_F (x : FI.F.type) : option float :=
  match x with
  | Float m e =>
      let mz := BigZ.to_Z m in
      let r := f_ofZ_exp (Z.abs mz) (BigZ.to_Z e) in
      Some (if (mz <? 0)%Z then - r else r)
  | _ => None
  end.

Definition f_of_I (i : FI.I.type) : option float :=
  match i with
  | Interval.Float.Ibnd (Float _ _) (Float _ _) => f_of_F (FI.I.midpoint i)
  | _ => None
  end.

Definition f_fn (f : fnid) (x : float) : option float :=
  match f_to_I x with
  | None => None
  | Some xi =>
      (* limits of the IEEE functions outside the range evaluated by enclosure *)
      if (match f with Flog | Flog10 => true | _ => false end) && (PrimFloat.eqb x 0) then Some neg_infinity else
      if (match f with Flog | Flog10 => true | _ => false end) && (x <? 0) then Some nan else
      if (match f with Fexp => true | _ => false end) && (710 <=? x) then Some infinity else
      if (match f with Fexp => true | _ => false end) && (x <=? -746) then Some 0 else
      match f with
      | Fexp => if PrimFloat.abs x <? 700 then f_of_I (FI.I.exp iprec xi) else None
      | Flog => if 0 <? x then f_of_I (FI.I.ln iprec xi) else None
      | Flog10 => if 0 <? x then
                    f_of_I (FI.I.div iprec (FI.I.ln iprec xi)
                              (FI.I.ln iprec (FI.I.bnd (Float 10%bigZ 0%bigZ) (Float 10%bigZ 0%bigZ))))
                  else None
      | Fsin => if PrimFloat.abs x <? 1000 then f_of_I (FI.I.sin iprec xi) else None
      | Fcos => if PrimFloat.abs x <? 1000 then f_of_I (FI.I.cos iprec xi) else None
      | Fatan => f_of_I (FI.I.atan iprec xi)
      end
  end.

Definition float_ops : numops float :=
  mkNumOps float f_lit f_ofZ PrimFloat.add PrimFloat.sub PrimFloat.mul PrimFloat.div PrimFloat.opp
           PrimFloat.eqb PrimFloat.ltb f_floor f_ceil PrimFloat.abs PrimFloat.sqrt f_toZ f_fmod f_fn.

End FloatInstance.

(* ------------------------------------------------------------------ exact-integer instance
   (used as a witness that the hypotheses of the loop theorems are satisfiable, and for
   quick sanity evaluation; division is Z division, transcendental functions are absent) *)
Definition z_ops : numops Z :=
  mkNumOps Z (fun m e => if (0 <=? e)%Z then Some (m * 10 ^ e)%Z else None) (fun z => z)
           Z.add Z.sub Z.mul Z.quot Z.opp Z.eqb Z.ltb (fun z => z) (fun z => z) Z.abs Z.sqrt
           (fun z => Some z) (fun a b => if (b =? 0)%Z then None else Some (Z.rem a b)) (fun _ _ => None).
