(* C17 — precedence / associativity correctness of the token-level expression evaluator.

   Main theorem [expr_tokens_eval_eq_ast]: for EVERY expression AST a (any depth), if the reference
   evaluation [eval_ast a] succeeds with value v, then evaluating the token stream printed from a
   (minimal parentheses) with the interpreter's precedence-climbing evaluator yields exactly v and
   consumes exactly the printed tokens — for all sufficiently large fuel.

   Proof structure: a big-step relation Lev/Loop that mirrors level/loop on successful runs
   ([sound]: the relation implies the fuel-indexed function, the only place where fuel is handled),
   and a structural induction on the AST over the relation ([pr_correct]) with the invariant
   "after the printed form of a, the evaluator continues as if a complete operand of level [top L a]
   with value [eval_ast a] had just been read" (relation Climb). *)
From Coq Require Import ZArith Bool List String Ascii Lia.
From IPV.C17 Require Import Num Tok Eval Ast.
Import ListNotations.

Section Prec.
Variable num : Type.
Variable ops : numops num.
Variable tbl : kwtable.
Variable hp : bool.
Variable e : env num.

Notation val := (val num).
Notation level := (level num ops tbl hp).
Notation loop := (loop num ops tbl hp).
Notation args_tail := (args_tail num ops tbl hp).
Notation eval_ast := (eval_ast num ops hp e).

Definition no_lp (ts : list tok) : Prop := match ts with TK Klp :: _ => False | _ => True end.

Inductive Lev : nat -> list tok -> val -> list tok -> Prop :=
| Lev_num : forall m ex x r, n_lit ops m ex = Some x -> Lev 6 (TNum m ex :: r) (VNum x) r
| Lev_str : forall s r, Lev 6 (TStr s :: r) (VStr s) r
| Lev_var : forall x v r, no_lp r -> var_value num ops e x = Ok v -> Lev 6 (TVar x :: r) v r
| Lev_paren : forall r v r', Lev 0 r v (TK Krp :: r') -> Lev 6 (TK Klp :: r) v r'
| Lev_neg : forall r x r', Lev 6 r (VNum x) r' -> Lev 6 (TK Kminus :: r) (VNum (n_neg ops x)) r'
| Lev_not : forall r x z r', Lev 6 r (VNum x) r' -> round_half_up num ops x = Ok z ->
                             Lev 6 (TK Knot :: r) (VNum (n_ofZ ops (Z.lnot z))) r'
| Lev_fn : forall k r x v r', is_fn k = true -> Lev 6 r (VNum x) r' -> fn1 num ops hp k x = Some (Ok v) ->
                              Lev 6 (TK k :: r) v r'
| Lev_up : forall L ts v1 r1 v r, L < 6 -> Lev (S L) ts v1 r1 -> Loop L v1 r1 v r -> Lev L ts v r
with Loop : nat -> val -> list tok -> val -> list tok -> Prop :=
| Loop_stop : forall L v ts, match ts with t :: _ => op_at L t = None | [] => True end -> Loop L v ts v ts
| Loop_step : forall L v t r o v2 r2 v' v'' r'',
    op_at L t = Some o -> Lev (rhs_level L) r v2 r2 -> apply_op num ops o v v2 = Ok v' ->
    Loop L v' r2 v'' r'' -> Loop L v (t :: r) v'' r''.

Scheme Lev_mut := Minimality for Lev Sort Prop
  with Loop_mut := Minimality for Loop Sort Prop.
Combined Scheme LevLoop_ind from Lev_mut, Loop_mut.

(* ------------------------------------------------------------------ unfolding *)
Lemma level_S : forall f L ts,
  level (S f) e L ts =
  if Nat.leb 6 L then factor_body num ops tbl hp e (level f e) (args_tail f e) ts
  else bind (level f e (S L) ts) (fun p => loop f e L (fst p) (snd p)).
Proof. reflexivity. Qed.

Lemma loop_S : forall f L v ts,
  loop (S f) e L v ts =
  match ts with
  | t :: r =>
      match op_at L t with
      | Some o => bind (level f e (rhs_level L) r) (fun p =>
                  bind (apply_op num ops o v (fst p)) (fun v' => loop f e L v' (snd p)))
      | None => Ok (v, ts)
      end
  | [] => Ok (v, ts)
  end.
Proof. reflexivity. Qed.

Lemma bind_ok : forall A B (r : res A) (k : A -> res B) b, bind r k = Ok b -> exists a, r = Ok a /\ k a = Ok b.
Proof. intros A B r k b H. destruct r; simpl in H; try discriminate. eauto. Qed.

(* ------------------------------------------------------------------ the relation implies the function *)
Definition evals_to (L : nat) (ts : list tok) (v : val) (r : list tok) : Prop :=
  exists N, forall f, N <= f -> level f e L ts = Ok (v, r).
Definition loops_to (L : nat) (v : val) (ts : list tok) (v' : val) (r : list tok) : Prop :=
  exists N, forall f, N <= f -> loop f e L v ts = Ok (v', r).

Ltac fuel_step N f Hf := exists (S N); intros f Hf; destruct f as [|f]; [lia|]; assert (N <= f) by lia.

Lemma sound :
  (forall L ts v r, Lev L ts v r -> evals_to L ts v r) /\
  (forall L v ts v' r, Loop L v ts v' r -> loops_to L v ts v' r).
Proof.
  apply LevLoop_ind; unfold evals_to, loops_to.
  - (* num *) intros m ex x r H. exists 1. intros f Hf. destruct f as [|f]; [lia|].
    rewrite level_S. simpl. rewrite H. reflexivity.
  - (* str *) intros s r. exists 1. intros f Hf. destruct f as [|f]; [lia|]. rewrite level_S. reflexivity.
  - (* var *) intros x v r Hlp Hv. exists 1. intros f Hf. destruct f as [|f]; [lia|].
    rewrite level_S. simpl. unfold var_value in Hv.
    destruct r as [|t r]; [|destruct t as [| | | |k|]; try destruct k; simpl in Hlp; try contradiction];
      destruct (assoc_s (e_arr num e) x); try discriminate; inversion Hv; reflexivity.
  - (* paren *) intros r v r' _ [N IH]. fuel_step N f Hf.
    rewrite level_S. simpl. rewrite IH by assumption. simpl. reflexivity.
  - (* neg *) intros r x r' _ [N IH]. fuel_step N f Hf.
    rewrite level_S. simpl. rewrite IH by assumption. reflexivity.
  - (* not *) intros r x z r' _ [N IH] Hz. fuel_step N f Hf.
    rewrite level_S. simpl. rewrite IH by assumption. simpl. rewrite Hz. reflexivity.
  - (* fn *) intros k r x v r' Hk _ [N IH] Hfn. fuel_step N f Hf.
    rewrite level_S.
    destruct k; simpl in Hk; try discriminate; simpl; rewrite IH by assumption; simpl; simpl in Hfn;
      inversion Hfn as [Hfn']; try rewrite Hfn'; reflexivity.
  - (* up *) intros L ts v1 r1 v r HL _ [N1 IH1] _ [N2 IH2]. exists (S (Nat.max N1 N2)). intros f Hf.
    destruct f as [|f]; [lia|]. rewrite level_S.
    replace (Nat.leb 6 L) with false by (symmetry; apply Nat.leb_gt; exact HL).
    rewrite IH1 by lia. simpl. apply IH2. lia.
  - (* stop *) intros L v ts H. exists 1. intros f Hf. destruct f as [|f]; [lia|]. rewrite loop_S.
    destruct ts as [|t r]; [reflexivity|]. rewrite H. reflexivity.
  - (* step *) intros L v t r o v2 r2 v' v'' r'' Hop _ [N1 IH1] Hap _ [N2 IH2].
    exists (S (Nat.max N1 N2)). intros f Hf. destruct f as [|f]; [lia|]. rewrite loop_S. rewrite Hop.
    rewrite IH1 by lia. simpl. rewrite Hap. simpl. apply IH2. lia.
Qed.

(* ------------------------------------------------------------------ climbing through the enclosing loops *)
Inductive Climb (L : nat) : nat -> val -> list tok -> val -> list tok -> Prop :=
| Climb_done : forall v ts, Climb L L v ts v ts
| Climb_step : forall p v ts v1 r1 v' r', L <= p -> p < 6 -> Loop p v ts v1 r1 -> Climb L p v1 r1 v' r' ->
                                         Climb L (S p) v ts v' r'.

Lemma lev_climb : forall L p v1 r1 v' r', Climb L p v1 r1 v' r' -> forall ts, Lev p ts v1 r1 -> Lev L ts v' r'.
Proof.
  intros L p v1 r1 v' r' H. induction H; intros ts0 Hl; [assumption|].
  apply IHClimb. eapply Lev_up; eauto.
Qed.

Definition nofollow (k : nat) (ts : list tok) : Prop :=
  match ts with t :: _ => forall l, k <= l -> op_at l t = None | [] => True end.

Lemma nofollow_mono : forall k k' ts, k <= k' -> nofollow k ts -> nofollow k' ts.
Proof. intros k k' [|t r] Hk H; simpl in *; auto. intros l Hl. apply H. lia. Qed.

Lemma climb_id : forall L v rest p, L <= p -> p <= 6 -> nofollow L rest -> Climb L p v rest v rest.
Proof.
  intros L v rest p. induction p; intros HL Hp Hn.
  - assert (L = 0) by lia. subst. constructor.
  - destruct (Nat.eq_dec L (S p)) as [->|Hne]; [constructor|].
    eapply Climb_step; [lia | lia | | apply IHp; [lia | lia | assumption]].
    apply Loop_stop. destruct rest as [|t r]; [exact I|]. apply Hn. lia.
Qed.

Lemma climb_snoc : forall l p v ts v1 r1, Climb (S l) p v ts v1 r1 -> forall v2 r2, l < 6 -> Loop l v1 r1 v2 r2 ->
  Climb l p v ts v2 r2.
Proof.
  intros l p v ts v1 r1 H. induction H; intros v2 r2 Hl HL.
  - eapply Climb_step; [lia | assumption | exact HL | constructor].
  - eapply Climb_step; [lia | assumption | eassumption | apply IHClimb; assumption].
Qed.

(* ------------------------------------------------------------------ facts about operator tokens *)
Lemma op_at_optok : forall o, op_at (lvl o) (optok o) = Some o.
Proof. destruct o; reflexivity. Qed.

Lemma op_at_other : forall o l, l <> lvl o -> op_at l (optok o) = None.
Proof.
  intros o l H. destruct o; simpl in H;
    destruct l as [|[|[|[|[|[|l]]]]]]; simpl; try reflexivity; try congruence.
Qed.

Lemma op_at_ge6 : forall l t, 6 <= l -> op_at l t = None.
Proof. intros l t H. do 6 (destruct l as [|l]; [lia|]). reflexivity. Qed.

Lemma nofollow6 : forall ts, nofollow 6 ts.
Proof. intros [|t r]; simpl; auto. intros. apply op_at_ge6. assumption. Qed.

Lemma op_at_rp : forall l, op_at l (TK Krp) = None.
Proof. intros l. do 6 (destruct l as [|l]; [reflexivity|]). reflexivity. Qed.

Lemma lvl_le5 : forall o, lvl o <= 5.
Proof. destruct o; simpl; lia. Qed.

(* ------------------------------------------------------------------ the printer *)
Definition body (a : ex) : list tok :=
  match a with
  | ENum m ex => [TNum m ex]
  | EStr s => [TStr s]
  | EVar x => [TVar x]
  | ENeg b => TK Kminus :: pr 6 b
  | ENot b => TK Knot :: pr 6 b
  | EFn k b => TK k :: pr 6 b
  | EBin o x y => pr (lhs_level o) x ++ optok o :: pr (rhs_level (lvl o)) y
  end.

Lemma pr_body : forall L a, pr L a = if Nat.ltb (prec a) L then TK Klp :: body a ++ [TK Krp] else body a.
Proof. intros L a. destruct a; reflexivity. Qed.

(* level of the loop in which the evaluator finds itself after the printed form of a (at level L) *)
Definition top (L : nat) (a : ex) : nat :=
  if Nat.ltb (prec a) L then 6 else match a with EBin o _ _ => S (lvl o) | _ => 6 end.
(* the token after the printed form must not be an operator of this level or above *)
Definition fl (L : nat) (a : ex) : nat :=
  if Nat.ltb (prec a) L then 6 else match a with EBin o _ _ => rhs_level (lvl o) | _ => 6 end.

Lemma prec_le6 : forall a, prec a <= 6.
Proof. destruct a; simpl; try lia. pose proof (lvl_le5 o). lia. Qed.

Lemma top_bounds : forall L a, L <= 6 -> L <= top L a /\ top L a <= 6.
Proof.
  intros L a HL. unfold top. destruct (Nat.ltb (prec a) L) eqn:E; [lia|].
  apply Nat.ltb_ge in E. destruct a; simpl in *; try lia. pose proof (lvl_le5 o). lia.
Qed.

Lemma fl_ge : forall L a, L <= 6 -> L <= fl L a.
Proof.
  intros L a HL. unfold fl. destruct (Nat.ltb (prec a) L) eqn:E; [lia|].
  apply Nat.ltb_ge in E. destruct a; simpl in *; try lia.
  unfold rhs_level. destruct (Nat.eqb (lvl o) 5) eqn:E5; [apply Nat.eqb_eq in E5; lia | lia].
Qed.

Lemma rhs_level_bounds : forall o, lvl o <= rhs_level (lvl o) /\ rhs_level (lvl o) <= 6.
Proof. intros o. unfold rhs_level. pose proof (lvl_le5 o). destruct (Nat.eqb (lvl o) 5) eqn:E; [apply Nat.eqb_eq in E|]; lia. Qed.

Definition Good (a : ex) : Prop :=
  forall v, eval_ast a = Ok v ->
  forall L rest v' rest', L <= 6 -> no_lp rest -> nofollow (fl L a) rest ->
    Climb L (top L a) v rest v' rest' -> Lev L (pr L a ++ rest) v' rest'.

(* statement for the unparenthesised form *)
Definition GoodNP (a : ex) : Prop :=
  forall v, eval_ast a = Ok v ->
  forall L rest v' rest', L <= prec a -> no_lp rest -> nofollow (fl L a) rest ->
    Climb L (top L a) v rest v' rest' -> Lev L (body a ++ rest) v' rest'.

Lemma paren_lift : forall a, GoodNP a -> Good a.
Proof.
  intros a NP v Hv L rest v' rest' HL Hlp Hnf Hc. rewrite pr_body.
  destruct (Nat.ltb (prec a) L) eqn:E.
  - (* parenthesised *)
    assert (Ht : top L a = 6) by (unfold top; rewrite E; reflexivity). rewrite Ht in Hc.
    eapply lev_climb; [exact Hc|].
    simpl. rewrite <- app_assoc. simpl. apply Lev_paren.
    apply (NP v Hv 0 (TK Krp :: rest) v (TK Krp :: rest)); [lia | exact I | | ].
    + simpl. intros l _. apply op_at_rp.
    + apply climb_id; [lia | apply top_bounds; lia |]. simpl. intros l _. apply op_at_rp.
  - apply Nat.ltb_ge in E. apply (NP v Hv L rest v' rest'); assumption.
Qed.

Lemma top6_at6 : forall a, top 6 a = 6.
Proof. intros a. unfold top. destruct (Nat.ltb (prec a) 6) eqn:E; [reflexivity|]. apply Nat.ltb_ge in E.
  destruct a; try reflexivity. simpl in E. pose proof (lvl_le5 o). lia. Qed.

Lemma fl6_at6 : forall a, fl 6 a = 6.
Proof. intros a. unfold fl. destruct (Nat.ltb (prec a) 6) eqn:E; [reflexivity|]. apply Nat.ltb_ge in E.
  destruct a; try reflexivity. simpl in E. pose proof (lvl_le5 o). lia. Qed.

(* operand of a unary operator: a factor *)
Lemma factor_operand : forall b vb rest, Good b -> eval_ast b = Ok vb -> no_lp rest -> Lev 6 (pr 6 b ++ rest) vb rest.
Proof.
  intros b vb rest G Hb Hlp. apply (G vb Hb 6 rest vb rest); [lia | assumption | | ].
  - rewrite fl6_at6. apply nofollow6.
  - rewrite top6_at6. constructor.
Qed.

Lemma atom_top : forall L a, (match a with EBin _ _ _ => False | _ => True end) -> L <= prec a -> top L a = 6.
Proof. intros L a Ha HL. unfold top. replace (Nat.ltb (prec a) L) with false by (symmetry; apply Nat.ltb_ge; exact HL).
  destruct a; try reflexivity; contradiction. Qed.

Theorem pr_correct : forall a, Good a.
Proof.
  induction a as [m ex | s | x | b IHb | b IHb | k b IHb | o x IHx y IHy]; apply paren_lift;
    intros v Hv L rest v' rest' HL Hlp Hnf Hc.
  - (* num *) rewrite atom_top in Hc by (simpl; auto). eapply lev_climb; [exact Hc|].
    simpl in Hv. destruct (n_lit ops m ex) eqn:El; simpl in Hv; try discriminate. inversion Hv; subst.
    simpl. apply Lev_num. assumption.
  - (* str *) rewrite atom_top in Hc by (simpl; auto). eapply lev_climb; [exact Hc|].
    simpl in Hv. inversion Hv; subst. simpl. apply Lev_str.
  - (* var *) rewrite atom_top in Hc by (simpl; auto). eapply lev_climb; [exact Hc|].
    simpl in Hv. simpl. apply Lev_var; assumption.
  - (* neg *) rewrite atom_top in Hc by (simpl; auto). eapply lev_climb; [exact Hc|].
    simpl in Hv. apply bind_ok in Hv. destruct Hv as (vb & Hb & Hv). apply bind_ok in Hv. destruct Hv as (xb & Hn & Hv).
    destruct vb; simpl in Hn; try discriminate. inversion Hn; subst. inversion Hv; subst.
    simpl. apply Lev_neg. apply factor_operand; assumption.
  - (* not *) rewrite atom_top in Hc by (simpl; auto). eapply lev_climb; [exact Hc|].
    simpl in Hv. apply bind_ok in Hv. destruct Hv as (vb & Hb & Hv). apply bind_ok in Hv. destruct Hv as (xb & Hn & Hv).
    apply bind_ok in Hv. destruct Hv as (z & Hz & Hv).
    destruct vb; simpl in Hn; try discriminate. inversion Hn; subst. inversion Hv; subst.
    simpl. eapply Lev_not; [apply factor_operand; eassumption | assumption].
  - (* fn *) rewrite atom_top in Hc by (simpl; auto). eapply lev_climb; [exact Hc|].
    simpl in Hv. apply bind_ok in Hv. destruct Hv as (vb & Hb & Hv). apply bind_ok in Hv. destruct Hv as (xb & Hn & Hv).
    destruct vb; simpl in Hn; try discriminate. inversion Hn; subst.
    destruct (is_fn k) eqn:Ek; try discriminate.
    destruct (fn1 num ops hp k xb) as [rv|] eqn:Ef; try discriminate. subst rv.
    simpl. eapply Lev_fn; [exact Ek | apply factor_operand; eassumption | exact Ef].
  - (* binary operator *)
    simpl in HL. set (l := lvl o) in *.
    assert (Hl5 : l <= 5) by apply lvl_le5.
    simpl in Hv. apply bind_ok in Hv. destruct Hv as (vx & Hx & Hv). apply bind_ok in Hv. destruct Hv as (vy & Hy & Hap).
    assert (Ht : top L (EBin o x y) = S l).
    { unfold top. simpl. replace (Nat.ltb (lvl o) L) with false by (symmetry; apply Nat.ltb_ge; exact HL). reflexivity. }
    assert (Hf : fl L (EBin o x y) = rhs_level l).
    { unfold fl. simpl. replace (Nat.ltb (lvl o) L) with false by (symmetry; apply Nat.ltb_ge; exact HL). reflexivity. }
    rewrite Ht in Hc. rewrite Hf in Hnf.
    inversion Hc as [| p v0 ts0 v1 r1 v0' r0' HLp Hp6 Hloop Hrest]; subst; [lia|].
    (* right operand *)
    destruct (rhs_level_bounds o) as [Hr1 Hr2]. fold l in Hr1, Hr2.
    assert (Hy' : Lev (rhs_level l) (pr (rhs_level l) y ++ rest) vy rest).
    { apply (IHy vy Hy (rhs_level l) rest vy rest); [assumption | assumption | | ].
      - eapply nofollow_mono; [apply fl_ge; assumption | assumption].
      - apply climb_id; [apply top_bounds; assumption | apply top_bounds; assumption | assumption]. }
    (* the loop at level l consumes `op y` *)
    assert (Hloop' : Loop l vx (optok o :: pr (rhs_level l) y ++ rest) v1 r1).
    { eapply Loop_step; [apply op_at_optok | exact Hy' | exact Hap | exact Hloop]. }
    eapply lev_climb; [exact Hrest|].
    simpl. rewrite <- app_assoc. simpl. fold l.
    set (restx := optok o :: pr (rhs_level l) y ++ rest) in *.
    assert (Hlpx : no_lp restx) by (unfold restx; destruct o; exact I).
    destruct (Nat.eq_dec l 5) as [E5|N5].
    + (* ^ : the left operand is a factor *)
      assert (Ho : o = Bpow) by (destruct o; simpl in l; subst l; try discriminate; reflexivity). subst o.
      simpl. eapply Lev_up; [lia | | rewrite E5 in Hloop'; exact Hloop'].
      apply factor_operand; assumption.
    + assert (Hll : lhs_level o = l) by (destruct o; try reflexivity; simpl in l; subst l; contradiction). rewrite Hll.
      apply (IHx vx Hx l restx v1 r1); [lia | assumption | | ].
      * (* the operator that follows is of level l, below fl l x *)
        unfold restx. simpl. intros l' Hl'. apply op_at_other. fold l.
        assert (l < fl l x); [| lia].
        unfold fl. destruct (Nat.ltb (prec x) l) eqn:E; [lia|]. apply Nat.ltb_ge in E.
        destruct x; simpl in *; try lia.
        unfold rhs_level. destruct (Nat.eqb (lvl o0) 5) eqn:E5; [apply Nat.eqb_eq in E5; lia | lia].
      * (* loops above l ignore the operator, the loop at l consumes it *)
        destruct (top_bounds l x) as [Ht1 Ht2]; [lia|].
        assert (Hgt : S l <= top l x).
        { unfold top. destruct (Nat.ltb (prec x) l) eqn:E; [lia|]. apply Nat.ltb_ge in E.
          destruct x; simpl in *; lia. }
        eapply climb_snoc; [| lia | exact Hloop'].
        apply climb_id; [assumption | assumption |].
        unfold restx. simpl. intros l' Hl'. apply op_at_other. fold l. lia.
Qed.

(* ------------------------------------------------------------------ the theorem on the fuel-indexed evaluator *)
Definition not_operator (ts : list tok) : Prop :=
  match ts with t :: _ => forall l, op_at l t = None | [] => True end.

Theorem expr_tokens_eval_eq_ast : forall a v rest,
  eval_ast a = Ok v -> not_operator rest -> no_lp rest ->
  exists N, forall f, N <= f -> expr num ops tbl hp f e (pr 0 a ++ rest) = Ok (v, rest).
Proof.
  intros a v rest Hv Hno Hlp.
  assert (Hn0 : nofollow 0 rest) by (destruct rest; simpl in *; auto).
  assert (H : Lev 0 (pr 0 a ++ rest) v rest).
  { apply (pr_correct a v Hv 0 rest v rest); [lia | assumption | | ].
    - eapply nofollow_mono; [apply Nat.le_0_l | exact Hn0].
    - apply climb_id; [apply top_bounds; lia | apply top_bounds; lia | exact Hn0]. }
  destruct sound as [S1 _]. destruct (S1 _ _ _ _ H) as [N HN]. exists N. exact HN.
Qed.

Corollary expr_tokens_eval_eq_ast_whole : forall a v,
  eval_ast a = Ok v -> exists N, forall f, N <= f -> expr num ops tbl hp f e (pr 0 a) = Ok (v, []).
Proof.
  intros a v Hv. destruct (expr_tokens_eval_eq_ast a v [] Hv I I) as [N H]. exists N. intros f Hf.
  specialize (H f Hf). rewrite app_nil_r in H. exact H.
Qed.

End Prec.
