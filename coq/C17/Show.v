(* C17 — flat integer encoding of a model result, printed by the generated cases files and parsed
   by props/c17.py (only integers cross the Coq/python boundary: no float or string printing). *)
From Coq Require Import Floats ZArith List String Ascii.
From IPV.C17 Require Import Num Tok Eval Exec.
Import ListNotations.

Definition enc_string (s : string) : list Z :=
  Z.of_nat (String.length s) :: map (fun c => Z.of_nat (nat_of_ascii c)) (list_of_string s).

(* 0 finite (sign mantissa exponent) | 1 zero (sign) | 2 infinity (sign) | 3 nan *)
Definition enc_float (x : float) : list Z :=
  match Prim2SF x with
  | S754_finite s m e => [0; if s then 1 else 0; Z.pos m; e]
  | S754_zero s => [1; if s then 1 else 0]
  | S754_infinity s => [2; if s then 1 else 0]
  | S754_nan => [3]
  end%Z.

Definition enc_val (v : val float) : list Z :=
  match v with
  | VNum x => 0%Z :: enc_float x
  | VStr s => 1%Z :: enc_string s
  end.

Definition enc_out (o : out float) : list Z :=
  match o with
  | OPunch v => 0%Z :: enc_val v
  | OPrint v => 1%Z :: enc_val v
  | OPrintNl => [2%Z]
  end.

Definition enc_result (r : result float) : list Z :=
  match r with
  | RDone outs save saved =>
      [0%Z; Z.of_nat (List.length outs)] ++ flat_map enc_out outs
      ++ (match save with Some x => 1%Z :: enc_float x | None => [0%Z] end)
  | RError m => 1%Z :: enc_string m
  | RUnsup m => 2%Z :: enc_string m
  | RNoFuel => [3%Z]
  end.

(* a chain of programs sharing the PUT/GET store (RATES or CALCULATE_VALUES program, then the
   USER_PUNCH reader): each is run with the store left by the previous one *)
Fixpoint run_chain (tbl : kwtable) (fuel : nat) (saved : list (list Z * float)) (host : list (string * float)) (progs : list (bool * list string))
  : list (list Z) :=
  match progs with
  | [] => []
  | (hp, p) :: r =>
      let res := run_program float float_ops tbl hp fuel saved host p in
      enc_result res :: match res with
                        | RDone _ _ saved' => run_chain tbl fuel saved' host r
                        | _ => []
                        end
  end.
