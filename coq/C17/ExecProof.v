(* C17 — theorems about the statement executors of the BASIC model (coq/C17/Exec.v):
     for_loop_count            trip count of FOR/NEXT under exact integer arithmetic (any bounds, any step <> 0)
     cmdnext_spec              NEXT loops back exactly when next_continues holds, else pops the FOR record
     gosub_return_stack        GOSUB pushes one record; RETURN resumes after the GOSUB and restores the stack,
                               discarding FOR/WHILE records opened inside the subroutine
     malformed_* / *_error     malformed programs end in Err (never a value)
     run_fuel_irrelevant       the result of a run does not depend on the fuel once it suffices *)
From Coq Require Import ZArith Bool List String Ascii Lia.
From IPV.C17 Require Import Num Tok Eval Exec.
Import ListNotations.
Open Scope string_scope.

(* ------------------------------------------------------------------ FOR / NEXT trip count *)
Section ForCount.
Open Scope Z_scope.
Variable num : Type.
Variable ops : numops num.
(* an embedding of the integers of magnitude <= B on which the arithmetic of [ops] is exact
   (binary64: B = 2^53; the exact-integer instance z_ops: any B) *)
Variable inj : Z -> num.
Variable B : Z.
Hypothesis inj_add : forall a b, Z.abs a <= B -> Z.abs b <= B -> Z.abs (a + b) <= B -> n_add ops (inj a) (inj b) = inj (a + b).
Hypothesis inj_ltb : forall a b, Z.abs a <= B -> Z.abs b <= B -> n_ltb ops (inj a) (inj b) = (a <? b).
Hypothesis inj_eqb : forall a b, Z.abs a <= B -> Z.abs b <= B -> n_eqb ops (inj a) (inj b) = (a =? b).
Hypothesis inj_zero : n_ofZ ops 0 = inj 0.
Hypothesis B_pos : 0 <= B.

Definition trips (a b s : Z) : Z :=
  if 0 <? s then Z.max 0 ((b - a) / s + 1) else Z.max 0 ((a - b) / (- s) + 1).

Lemma skips_spec : forall a b s, Z.abs a <= B -> Z.abs b <= B -> Z.abs s <= B ->
  for_skips num ops (inj s) (inj a) (inj b) = ((0 <=? s) && (b <? a)) || ((s <=? 0) && (a <? b)).
Proof.
  intros a b s Ha Hb Hs. unfold for_skips, geb, leb, gtb, zero. rewrite inj_zero.
  rewrite !inj_ltb, !inj_eqb by (try assumption; rewrite Z.abs_0; assumption).
  destruct (0 <? s) eqn:E1; destruct (s =? 0) eqn:E2; destruct (s <? 0) eqn:E3;
  destruct (0 <=? s) eqn:E4; destruct (s <=? 0) eqn:E5; try reflexivity; exfalso;
  try apply Z.ltb_lt in E1; try apply Z.ltb_ge in E1; try apply Z.eqb_eq in E2; try apply Z.eqb_neq in E2;
  try apply Z.ltb_lt in E3; try apply Z.ltb_ge in E3; try apply Z.leb_le in E4; try apply Z.leb_gt in E4;
  try apply Z.leb_le in E5; try apply Z.leb_gt in E5; lia.
Qed.

Lemma continues_spec : forall x b s, Z.abs x <= B -> Z.abs b <= B -> Z.abs s <= B ->
  next_continues num ops (inj s) (inj x) (inj b) = ((s <? 0) || (x <=? b)) && ((0 <? s) || (b <=? x)).
Proof.
  intros x b s Hx Hb Hs. unfold next_continues, geb, leb, gtb, zero. rewrite inj_zero.
  rewrite !inj_ltb, !inj_eqb by (try assumption; rewrite Z.abs_0; assumption).
  destruct (s <? 0) eqn:E1; destruct (0 <? s) eqn:E2; destruct (x <? b) eqn:E3; destruct (x =? b) eqn:E4;
  destruct (b <? x) eqn:E5; destruct (x <=? b) eqn:E6; destruct (b <=? x) eqn:E7; try reflexivity; exfalso;
  try apply Z.ltb_lt in E1; try apply Z.ltb_ge in E1; try apply Z.ltb_lt in E2; try apply Z.ltb_ge in E2;
  try apply Z.ltb_lt in E3; try apply Z.ltb_ge in E3; try apply Z.eqb_eq in E4; try apply Z.eqb_neq in E4;
  try apply Z.ltb_lt in E5; try apply Z.ltb_ge in E5; try apply Z.leb_le in E6; try apply Z.leb_gt in E6;
  try apply Z.leb_le in E7; try apply Z.leb_gt in E7; lia.
Qed.

(* ascending loop: from x <= b, the number of further iterations is (b - x) / s *)
Lemma next_count_up : forall n x b s f, 0 < s -> x <= b -> Z.abs x <= B -> Z.abs b <= B -> Z.abs s <= B -> Z.abs (b + s) <= B ->
  (b - x) / s = Z.of_nat n -> (n <= f)%nat ->
  next_count num ops f (inj x) (inj b) (inj s) = n.
Proof.
  induction n as [|n IH]; intros x b s f Hs Hxb Hx Hb Hs' Hbs Hq Hf.
  - destruct f as [|f]; [reflexivity|]. simpl.
    assert (Hlt : b < x + s). { assert (H := Z.mul_succ_div_gt (b - x) s Hs). rewrite Hq in H. simpl in H. lia. }
    rewrite inj_add by (try assumption; lia). rewrite continues_spec by (try assumption; lia).
    replace (s <? 0) with false by (symmetry; apply Z.ltb_ge; lia).
    replace (x + s <=? b) with false by (symmetry; apply Z.leb_gt; lia). reflexivity.
  - destruct f as [|f]; [lia|]. simpl.
    assert (Hge : x + s <= b).
    { assert (H := Z.mul_div_le (b - x) s Hs). rewrite Hq in H. rewrite Nat2Z.inj_succ in H. nia. }
    rewrite inj_add by (try assumption; lia). rewrite continues_spec by (try assumption; lia).
    replace (s <? 0) with false by (symmetry; apply Z.ltb_ge; lia).
    replace (x + s <=? b) with true by (symmetry; apply Z.leb_le; lia).
    replace (0 <? s) with true by (symmetry; apply Z.ltb_lt; lia). simpl. f_equal.
    apply IH; try assumption; try lia.
    replace (b - (x + s)) with ((b - x) + (-1) * s) by lia. rewrite Z.div_add by lia. rewrite Hq. lia.
Qed.

Lemma next_count_down : forall n x b s f, s < 0 -> b <= x -> Z.abs x <= B -> Z.abs b <= B -> Z.abs s <= B -> Z.abs (b + s) <= B ->
  (x - b) / (- s) = Z.of_nat n -> (n <= f)%nat ->
  next_count num ops f (inj x) (inj b) (inj s) = n.
Proof.
  induction n as [|n IH]; intros x b s f Hs Hxb Hx Hb Hs' Hbs Hq Hf.
  - destruct f as [|f]; [reflexivity|]. simpl.
    assert (Hlt : x + s < b). { assert (0 < - s) by lia. assert (H1 := Z.mul_succ_div_gt (x - b) (- s) H). rewrite Hq in H1. simpl in H1. lia. }
    rewrite inj_add by (try assumption; lia). rewrite continues_spec by (try assumption; lia).
    replace (s <? 0) with true by (symmetry; apply Z.ltb_lt; lia).
    replace (0 <? s) with false by (symmetry; apply Z.ltb_ge; lia).
    replace (b <=? x + s) with false by (symmetry; apply Z.leb_gt; lia). reflexivity.
  - destruct f as [|f]; [lia|]. simpl.
    assert (Hge : b <= x + s).
    { assert (0 < - s) by lia. assert (H1 := Z.mul_div_le (x - b) (- s) H). rewrite Hq in H1. rewrite Nat2Z.inj_succ in H1. nia. }
    rewrite inj_add by (try assumption; lia). rewrite continues_spec by (try assumption; lia).
    replace (s <? 0) with true by (symmetry; apply Z.ltb_lt; lia).
    replace (0 <? s) with false by (symmetry; apply Z.ltb_ge; lia).
    replace (b <=? x + s) with true by (symmetry; apply Z.leb_le; lia). simpl. f_equal.
    apply IH; try assumption; try lia.
    replace (x + s - b) with ((x - b) + (-1) * (- s)) by lia. rewrite Z.div_add by lia. rewrite Hq. lia.
Qed.

(* FOR v = a TO b STEP s executes its body  max 0 (floor((b-a)/s) + 1)  times (s > 0), resp. with the roles of a and b
   exchanged for s < 0 — for all integers a b s within the range on which the arithmetic is exact *)
Theorem for_loop_count : forall a b s f,
  s <> 0 -> Z.abs a <= B -> Z.abs b <= B -> Z.abs s <= B -> Z.abs (b + s) <= B ->
  (Z.to_nat (trips a b s) <= f)%nat ->
  trip_count num ops f (inj a) (inj b) (inj s) = Z.to_nat (trips a b s).
Proof.
  intros a b s f Hs Ha Hb Hs' Hbs Hf. unfold trip_count, trips in *. rewrite skips_spec by assumption.
  destruct (0 <? s) eqn:E.
  - apply Z.ltb_lt in E.
    replace (0 <=? s) with true by (symmetry; apply Z.leb_le; lia).
    replace (s <=? 0) with false by (symmetry; apply Z.leb_gt; lia). simpl. rewrite orb_false_r.
    destruct (b <? a) eqn:E2.
    + apply Z.ltb_lt in E2. assert ((b - a) / s < 0) by (apply Z.div_lt_upper_bound; lia).
      rewrite Z.max_l by lia. reflexivity.
    + apply Z.ltb_ge in E2. assert (0 <= (b - a) / s) by (apply Z.div_pos; lia).
      rewrite Z.max_r in * by lia. rewrite Z2Nat.inj_add by lia. simpl.
      rewrite Nat.add_1_r. f_equal.
      apply next_count_up; try assumption; try lia.
  - apply Z.ltb_ge in E. assert (Hneg : s < 0) by lia.
    replace (0 <=? s) with false by (symmetry; apply Z.leb_gt; lia).
    replace (s <=? 0) with true by (symmetry; apply Z.leb_le; lia). simpl.
    destruct (a <? b) eqn:E2.
    + apply Z.ltb_lt in E2. assert ((a - b) / (- s) < 0) by (apply Z.div_lt_upper_bound; lia).
      rewrite Z.max_l by lia. reflexivity.
    + apply Z.ltb_ge in E2. assert (0 <= (a - b) / (- s)) by (apply Z.div_pos; lia).
      rewrite Z.max_r in * by lia. rewrite Z2Nat.inj_add by lia. simpl.
      rewrite Nat.add_1_r. f_equal.
      apply next_count_down; try assumption; try lia.
Qed.

End ForCount.

(* the hypotheses of for_loop_count are satisfiable: the exact-integer instance, any bound *)
Example for_loop_count_Z : forall a b s f, (s <> 0)%Z -> (Z.to_nat (trips a b s) <= f)%nat ->
  trip_count Z z_ops f a b s = Z.to_nat (trips a b s).
Proof.
  intros a b s f Hs Hf.
  pose (Bd := (Z.abs a + Z.abs b + Z.abs s + Z.abs (b + s))%Z).
  apply (for_loop_count Z z_ops (fun z => z) Bd); unfold Bd; simpl; intros; try reflexivity; try assumption; lia.
Qed.

Example for_loop_count_example : trip_count Z z_ops 100 1%Z 10%Z 3%Z = 4%nat /\ trip_count Z z_ops 100 5%Z 1%Z 1%Z = 0%nat
                                 /\ trip_count Z z_ops 100 3%Z 1%Z (-1)%Z = 3%nat.
Proof. vm_compute. auto. Qed.

(* ------------------------------------------------------------------ statements *)
Section Stmts.
Variable num : Type.
Variable ops : numops num.
Variable tbl : kwtable.
Variable hp : bool.
Variable prog : program.
Variable efuel : nat.

Notation state := (state num).
Notation looprec := (looprec num).
Notation cmdnext := (cmdnext num ops tbl hp efuel).
Notation cmdreturn := (cmdreturn num).
Notation cmdgosub := (cmdgosub num ops tbl hp prog efuel).
Notation cmdgoto := (cmdgoto num ops tbl hp prog efuel).
Notation step := (step num ops tbl hp prog efuel).
Notation run := (run num ops tbl hp prog efuel).

Definition is_gosub (l : looprec) : bool := match l with LGosub _ _ => true | _ => false end.

(* NEXT (without a variable) on a FOR record: adds the step; loops back to the statement after the FOR header with the
   record kept iff next_continues, otherwise pops the record and goes on after the NEXT *)
Theorem cmdnext_spec : forall (s : state) name mx st hl ht rest t,
  s_loops num s = LFor num name mx st hl ht :: rest -> iseos t = true ->
  let v' := n_add ops (scal_num num ops (s_env num s) name) st in
  let e' := assign num (s_env num s) (TScal name) (VNum v') in
  cmdnext s t =
  Ok (if next_continues num ops st v' mx
      then with_pos num (with_loops num (with_env num s e') (LFor num name mx st hl ht :: rest)) hl ht
      else with_t num (with_loops num (with_env num s e') rest) t).
Proof.
  intros s name mx st hl ht rest t Hl Ht. unfold Exec.cmdnext. rewrite Ht. simpl. rewrite Hl. simpl.
  destruct (next_continues num ops st (n_add ops (scal_num num ops (s_env num s) name) st) mx); reflexivity.
Qed.

(* RETURN: any FOR/WHILE records above the innermost GOSUB record are discarded, execution resumes at the end of the
   GOSUB statement and the stack is what it was before the GOSUB *)
Lemma return_find_spec : forall (extra : list looprec) hl ht stack,
  forallb (fun l => negb (is_gosub l)) extra = true ->
  return_find num (extra ++ LGosub num hl ht :: stack)%list = Ok (hl, ht, stack).
Proof.
  induction extra as [|l extra IH]; intros hl ht stack H; simpl; [reflexivity|].
  simpl in H. apply andb_prop in H. destruct H as [Hl H]. destruct l; simpl in Hl; try discriminate; apply IH; assumption.
Qed.

Lemma return_find_none : forall (l : list looprec), forallb (fun r => negb (is_gosub r)) l = true ->
  return_find num l = Err "RETURN without GOSUB".
Proof.
  induction l as [|r l IH]; intros H; simpl; [reflexivity|].
  simpl in H. apply andb_prop in H. destruct H as [Hr H]. destruct r; simpl in Hr; try discriminate; apply IH; assumption.
Qed.

Theorem gosub_return_stack : forall (s : state) t s1,
  cmdgosub s t = Ok s1 ->
  (* GOSUB: one record on top of the unchanged stack, a jump to an existing line, variables untouched *)
  s_loops num s1 = LGosub num (s_line num s) t :: s_loops num s /\ s_goto num s1 = true /\
  (exists l, s_line num s1 = Some l) /\ s_env num s1 = s_env num s /\
  (* RETURN, later, with only FOR/WHILE records pushed since: resumes after the GOSUB statement with the old stack *)
  forall (s2 : state) extra t2,
    s_loops num s2 = (extra ++ s_loops num s1)%list -> forallb (fun l => negb (is_gosub l)) extra = true ->
    exists s3, cmdreturn s2 t2 = Ok s3 /\ s_loops num s3 = s_loops num s /\ s_line num s3 = s_line num s /\
               s_t num s3 = skiptoeos t /\ s_env num s3 = s_env num s2 /\ s_out num s3 = s_out num s2.
Proof.
  intros s t s1 H. unfold Exec.cmdgosub, Exec.cmdgoto in H.
  destruct (intexpr num ops tbl hp efuel _ t) as [p| | |] eqn:E; simpl in H; try discriminate.
  destruct (mustfindline prog (fst p)) as [l| | |] eqn:El; simpl in H; try discriminate.
  inversion H; subst; clear H. simpl. repeat split; eauto.
  intros s2 extra t2 Hs2 Hex. unfold Exec.cmdreturn. rewrite Hs2. simpl.
  rewrite return_find_spec by assumption. simpl. eexists. split; [reflexivity|]. simpl. repeat split.
Qed.

(* ------------------------------------------------------------------ malformed programs end in Err *)
Theorem return_without_gosub_error : forall (s : state) t,
  forallb (fun l => negb (is_gosub l)) (s_loops num s) = true ->
  cmdreturn s t = Err "RETURN without GOSUB".
Proof. intros s t H. unfold Exec.cmdreturn. rewrite return_find_none by assumption. reflexivity. Qed.

Theorem next_without_for_error : forall (s : state) t,
  s_loops num s = [] -> iseos t = true -> cmdnext s t = Err "NEXT without FOR".
Proof. intros s t H Ht. unfold Exec.cmdnext. rewrite Ht. simpl. rewrite H. reflexivity. Qed.

Theorem goto_undefined_line_error : forall (s : state) t n r,
  intexpr num ops tbl hp efuel (s_env num s) t = Ok (n, r) -> findline prog n = None ->
  cmdgoto s t = Err "Undefined line".
Proof. intros s t n r H Hn. unfold Exec.cmdgoto. rewrite H. simpl. unfold mustfindline. rewrite Hn. reflexivity. Qed.

(* whatever a statement did, tokens left before the next `:` / ELSE / end of line are an error *)
Theorem extra_information_error : forall (s s1 : state) first t,
  skip_colons (s_t num s) = first :: t ->
  dispatch num ops tbl hp prog efuel
    (mkState num (s_env num s) (s_loops num s) (s_line num s) (first :: t) false false (s_dataline num s) (s_datatok num s) (s_out num s) (s_save num s))
    first t = Ok s1 ->
  s_else num s1 = false -> iseos (s_t num s1) = false ->
  step s = Err "Extra information on line".
Proof.
  intros s s1 first t Hs Hd He Hi. unfold Exec.step. rewrite Hs. rewrite Hd. simpl. rewrite He, Hi. reflexivity.
Qed.

(* ------------------------------------------------------------------ fuel *)
Theorem run_fuel_irrelevant : forall f (s : state) r, run f s = r -> r <> NoFuel -> forall f', f <= f' -> run f' s = r.
Proof.
  induction f as [|f IH]; intros s r H Hr f' Hf.
  - simpl in H. subst. contradiction.
  - destruct f' as [|f']; [lia|]. simpl in *. destruct (step s) as [sr| | |]; simpl in *; try assumption.
    destruct sr as [s'|s']; [|assumption]. apply IH; [assumption | assumption | lia].
Qed.

End Stmts.

(* ------------------------------------------------------------------ store laws: PUT/GET, scalar variables *)
Section Stores.
Context {A : Type}.

Lemma zlist_eqb_spec : forall a b, zlist_eqb a b = true <-> a = b.
Proof.
  induction a as [|x a IH]; destruct b as [|y b]; simpl; split; intros H; try reflexivity; try discriminate.
  - apply andb_prop in H. destruct H as [H1 H2]. apply Z.eqb_eq in H1. apply IH in H2. subst. reflexivity.
  - inversion H; subst. rewrite Z.eqb_refl. simpl. apply IH. reflexivity.
Qed.

(* PUT(v, k...) then GET(k...) yields v; every other key keeps its value (and its EXISTS status) *)
Theorem put_get_laws : forall (l : list (list Z * A)) k v,
  assoc_k (set_k l k v) k = Some v /\ forall k', k' <> k -> assoc_k (set_k l k v) k' = assoc_k l k'.
Proof.
  intros l k v. split.
  - induction l as [|[k0 v0] r IH]; simpl.
    + replace (zlist_eqb k k) with true by (symmetry; apply zlist_eqb_spec; reflexivity). reflexivity.
    + destruct (zlist_eqb k0 k) eqn:E; simpl.
      * replace (zlist_eqb k k) with true by (symmetry; apply zlist_eqb_spec; reflexivity). reflexivity.
      * rewrite E. exact IH.
  - intros k' Hne. induction l as [|[k0 v0] r IH]; simpl.
    + destruct (zlist_eqb k k') eqn:E; [apply zlist_eqb_spec in E; congruence | reflexivity].
    + destruct (zlist_eqb k0 k) eqn:E; simpl.
      * apply zlist_eqb_spec in E. subst k0.
        destruct (zlist_eqb k k') eqn:E2; [apply zlist_eqb_spec in E2; congruence | reflexivity].
      * destruct (zlist_eqb k0 k'); [reflexivity | exact IH].
Qed.

(* assignment to a scalar variable then reading it; other variables untouched *)
Theorem var_store_laws : forall (l : list (string * A)) x v,
  assoc_s (set_s l x v) x = Some v /\ forall y, y <> x -> assoc_s (set_s l x v) y = assoc_s l y.
Proof.
  intros l x v. split.
  - induction l as [|[k0 v0] r IH]; simpl.
    + rewrite String.eqb_refl. reflexivity.
    + destruct (String.eqb k0 x) eqn:E; simpl; [rewrite String.eqb_refl; reflexivity | rewrite E; exact IH].
  - intros y Hne. induction l as [|[k0 v0] r IH]; simpl.
    + destruct (String.eqb x y) eqn:E; [apply String.eqb_eq in E; congruence | reflexivity].
    + destruct (String.eqb k0 x) eqn:E; simpl.
      * apply String.eqb_eq in E. subst k0. destruct (String.eqb x y) eqn:E2; [apply String.eqb_eq in E2; congruence | reflexivity].
      * destruct (String.eqb k0 y); [reflexivity | exact IH].
Qed.

End Stores.

(* ------------------------------------------------------------------ arrays (numeric and string alike) *)
Section Arrays.
Variable num : Type.
Notation env := (env num).
Notation val := (val num).

Lemma assoc_z_set_z : forall {A} (l : list (Z * A)) k v,
  assoc_z (set_z l k v) k = Some v /\ forall k', k' <> k -> assoc_z (set_z l k v) k' = assoc_z l k'.
Proof.
  intros A l k v. split.
  - induction l as [|[k0 v0] r IH]; simpl.
    + rewrite Z.eqb_refl. reflexivity.
    + destruct (Z.eqb k0 k) eqn:E; simpl; [rewrite Z.eqb_refl; reflexivity | rewrite E; exact IH].
  - intros k' Hne. induction l as [|[k0 v0] r IH]; simpl.
    + destruct (Z.eqb k k') eqn:E; [apply Z.eqb_eq in E; congruence | reflexivity].
    + destruct (Z.eqb k0 k) eqn:E; simpl.
      * apply Z.eqb_eq in E. subst k0. destruct (Z.eqb k k') eqn:E2; [apply Z.eqb_eq in E2; congruence | reflexivity].
      * destruct (Z.eqb k0 k'); [reflexivity | exact IH].
Qed.

Fixpoint dims_size (dims : list Z) : Z := match dims with [] => 1%Z | d :: r => (d * dims_size r)%Z end.

(* row-major index = accumulator * size + offset, offset within the size *)
Lemma flat_index_shape : forall dims subs a k, flat_index dims subs a = Some k ->
  exists o, (0 <= o < dims_size dims)%Z /\ k = (a * dims_size dims + o)%Z.
Proof.
  induction dims as [|d dims IH]; intros subs a k H; destruct subs as [|j subs]; simpl in H; try discriminate.
  - inversion H; subst. exists 0%Z. simpl. lia.
  - destruct ((0 <=? j) && (j <? d))%Z%bool eqn:E; try discriminate.
    apply andb_prop in E. destruct E as [E1 E2]. apply Z.leb_le in E1. apply Z.ltb_lt in E2.
    destruct (IH _ _ _ H) as (o & Ho & Hk). exists (j * dims_size dims + o)%Z. simpl. split; [nia | lia].
Qed.

(* distinct in-range subscript lists address distinct cells *)
Lemma flat_index_injective : forall dims subs subs' a k,
  flat_index dims subs a = Some k -> flat_index dims subs' a = Some k -> subs = subs'.
Proof.
  induction dims as [|d dims IH]; intros subs subs' a k H H'; destruct subs as [|j subs]; destruct subs' as [|j' subs'];
    simpl in H, H'; try discriminate; [reflexivity|].
  destruct ((0 <=? j) && (j <? d))%Z%bool eqn:E; try discriminate.
  destruct ((0 <=? j') && (j' <? d))%Z%bool eqn:E'; try discriminate.
  destruct (flat_index_shape _ _ _ _ H) as (o & Ho & Hk). destruct (flat_index_shape _ _ _ _ H') as (o' & Ho' & Hk').
  assert (j = j') by nia. subst j'. f_equal. eapply IH; eassumption.
Qed.

(* assignment to an array element stores into exactly the addressed element: that element reads back the value, every
   other element of the array, every other array, every scalar and the PUT/GET store are untouched — whatever was
   evaluated in between (the target is fixed before the right-hand side is evaluated) *)
Theorem array_store_laws : forall (e : env) name dims cells k v,
  assoc_s (e_arr num e) name = Some (dims, cells) ->
  let e' := assign num e (TElem name k) v in
  (exists cells', assoc_s (e_arr num e') name = Some (dims, cells') /\ assoc_z cells' k = Some v /\
                  forall k', k' <> k -> assoc_z cells' k' = assoc_z cells k') /\
  (forall other, other <> name -> assoc_s (e_arr num e') other = assoc_s (e_arr num e) other) /\
  e_scal num e' = e_scal num e /\ e_saved num e' = e_saved num e /\ e_host num e' = e_host num e.
Proof.
  intros e name dims cells k v H. simpl. unfold assign. rewrite H. simpl.
  destruct (var_store_laws (e_arr num e) name (dims, set_z cells k v)) as [L1 L2].
  repeat split; auto.
  exists (set_z cells k v). split; [exact L1|]. apply assoc_z_set_z.
Qed.

(* two element designators of the same array denote the same cell only if the subscripts are equal *)
Theorem array_cells_distinct : forall dims subs subs' k k',
  flat_index dims subs 0%Z = Some k -> flat_index dims subs' 0%Z = Some k' -> subs <> subs' -> k <> k'.
Proof. intros dims subs subs' k k' H H' Hne Hk. subst k'. apply Hne. eapply flat_index_injective; eassumption. Qed.

End Arrays.

(* ------------------------------------------------------------------ tokenizer / compile *)
Section Compile.
Variable tbl : kwtable.

(* a line the scanner rejects (unbalanced parentheses or an unterminated string) makes the whole program an error:
   basic_compile never yields a line store *)
Theorem malformed_line_is_error : forall lines s m,
  In s lines -> parse_line tbl s = LineErr m -> forall p p', compile tbl lines p <> Ok p'.
Proof.
  induction lines as [|l lines IH]; intros s m Hin Hp p p'; [contradiction|].
  simpl. destruct Hin as [->|Hin].
  - rewrite Hp. discriminate.
  - destruct (parse_line tbl l) as [n ts|m']; [|discriminate].
    destruct (n =? 0)%Z; [destruct ts; [eapply IH; eassumption | discriminate] | eapply IH; eassumption].
Qed.

Lemma scan_unbalanced : forall s ts lp q,
  scan tbl (S (List.length (snd (take_lineno (trim_list (map (fun c => if is_ch 9 c || is_ch 13 c then ch 32 else c) (list_of_string s))) 0%Z))))
       (snd (take_lineno (trim_list (map (fun c => if is_ch 9 c || is_ch 13 c then ch 32 else c) (list_of_string s))) 0%Z)) [] 0%Z false = (ts, lp, q) ->
  (q = true \/ lp <> 0%Z) -> exists m, parse_line tbl s = LineErr m.
Proof.
  intros s ts lp q H Hbad. unfold parse_line.
  destruct (take_lineno _ 0%Z) as [n l2] eqn:E. cbn [snd] in H. rewrite H.
  destruct q; [eexists; reflexivity|]. destruct Hbad as [Hq|Hlp]; [discriminate|].
  destruct (0 <? lp)%Z eqn:E1; [eexists; reflexivity|].
  destruct (lp <? 0)%Z eqn:E2; [eexists; reflexivity|].
  apply Z.ltb_ge in E1. apply Z.ltb_ge in E2. lia.
Qed.

End Compile.
